(* C15 - Definitions table aligns all definitions at one cluster column. Proved: the two facts
   that make the column - every term is padded to the same cluster width, and the column
   combiner starts the right column at one cluster offset on every row - and their
   composition C15_table: InsertDefinitionsTable inserts, for the definitions in input order,
   the rows entry_rows (first row: two spaces, the term, padding to the longest term, two
   spaces, "- ", the first wrapped line; further rows: longest + 4 spaces, two spaces, the
   wrapped line), each definition's rows joined by the line separator and the definitions
   joined by the paragraph separator; nothing for an empty list. Word preservation inside the
   wrapped definition text is C07_wrap_words. *)
From Coq Require Import List Bool ZArith Lia.
Import ListNotations.
From Rosed Require Import Base.Res Base.ListX Base.Str Base.Utf8 Gem.Segment Gem.GString Model.Tb Model.Manip Model.Table Model.Options Model.Editor Model.Ops
     Proofs.SeamP Proofs.C15P Proofs.C15Q.
From Rosed Require Import Proofs.C15R.
Open Scope Z_scope.

Theorem C15_term_column : forall (C : Classifier) (K : ClassifierOk) term longest,
  starts_ok term -> ends_ok term -> glen term <= longest ->
  glen ([SP; SP] ++ term ++ repeat SP (Z.to_nat (longest - glen term))) = longest + 2.
Proof. intros C K. exact term_column_width. Qed.
Print Assumptions C15_term_column.

Theorem C15_rows : forall (C : Classifier) (K : ClassifierOk) n i left right total, 0 <= i -> 0 <= total ->
  (forall l, In l left -> glen l <= total) ->
  combine_rows n i left right total = Ok (map (row_of left right total) (seq (Z.to_nat i) n)).
Proof. intros C K. exact combine_rows_spec. Qed.
Print Assumptions C15_rows.

Theorem C15_right_column_offset : forall (C : Classifier) (K : ClassifierOk) (left : list gstr) total k,
  let l := match nth_error left k with Some x => x | None => [] end in
  ends_ok l -> glen l <= total ->
  glen (l ++ repeat SP (Z.to_nat (total - glen l))) = total.
Proof. intros C K. exact right_column_offset. Qed.
Print Assumptions C15_right_column_offset.

(* entry_rows term longest R, for R = r0 :: rs the wrapped lines of the definition text:
     "  " term pad "  " "- " r0   ::   map (fun l => (longest + 4 spaces) "  " l) rs
   entry longest d rb is entry_rows for definition d whose wrapped block is rb (one empty line if none) *)
Theorem C15_table : forall (C : Classifier) (K : ClassifierOk) (U : Upper) pos defs width opts e rbs,
  let o := with_defaults opts in
  let longest := fold_left lg_step defs (-1) in
  let lsep := decode (o_linesep o) in
  let psep := decode (o_parasep o) in
  Forall2 (fun d rb => wrap (decode (snd d)) (width - (longest + 2) - 2 - 2) lsep = Ok rb) defs rbs ->
  Forall (fun d => starts_ok (decode (fst d)) /\ ends_ok (decode (fst d))) defs ->
  insert_definitions_table_opts pos defs width opts e =
    match defs with
    | [] => Ok e
    | _ => insert pos (encode (join psep (map (join lsep) (map (fun p => entry longest (fst p) (snd p)) (combine defs rbs)))
                               ++ (if negb (o_notrailing o) then lsep else []))) e
    end.
Proof. intros C K U. exact deftable_spec. Qed.
Print Assumptions C15_table.

(* the longest term really is the longest: every term fits its column *)
Theorem C15_longest : forall (C : Classifier) defs d, In d defs -> glen (decode (fst d)) <= fold_left lg_step defs (-1).
Proof. intros C defs. exact (proj2 (longest_ge defs (-1))). Qed.
Print Assumptions C15_longest.

(* an empty definitions list produces no output: the Editor is returned as it is *)
Theorem C15_empty_list : forall (C : Classifier) (U : Upper) pos width opts e, insert_definitions_table_opts pos [] width opts e = Ok e.
Proof. intros C U. exact definitions_table_empty. Qed.
Print Assumptions C15_empty_list.
