(* C15 - Definitions table aligns all definitions at one cluster column. Proved so far: the two
   facts that make the column - every term is padded to the same cluster width, and the
   column combiner starts the right column at one cluster offset on every row. Their
   composition through InsertDefinitionsTable (paragraph joining, insertion at pos) is judged
   on every generated case by the executable checker check_C15. *)
From Coq Require Import List Bool ZArith Lia.
Import ListNotations.
From Rosed Require Import Base.Res Base.ListX Gem.Segment Gem.GString Model.Manip Proofs.SeamP Proofs.C15P.
Open Scope Z_scope.

Theorem C15_term_column : forall (C : Classifier) (K : ClassifierOk) term longest,
  starts_ok term -> ends_ok term -> glen term <= longest ->
  glen ([SP; SP] ++ term ++ repeat SP (Z.to_nat (longest - glen term))) = longest + 2.
Proof. intros C K. exact term_column_width. Qed.
Print Assumptions C15_term_column.

Theorem C15_rows : forall (C : Classifier) (K : ClassifierOk) n i left right total, 0 <= i -> 0 <= total ->
  (forall l, In l left -> glen l <= total) ->
  combine_rows n i left right total = Ok (map (row_of left right total) (seq (Z.to_nat i) n)).
Proof. intros C K. exact combine_rows_spec. Qed.
Print Assumptions C15_rows.

Theorem C15_right_column_offset : forall (C : Classifier) (K : ClassifierOk) (left : list gstr) total k,
  let l := match nth_error left k with Some x => x | None => [] end in
  ends_ok l -> glen l <= total ->
  glen (l ++ repeat SP (Z.to_nat (total - glen l))) = total.
Proof. intros C K. exact right_column_offset. Qed.
Print Assumptions C15_right_column_offset.
