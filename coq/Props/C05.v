(* C05 - Committing a sub-editor rewrites exactly the selected region. *)
From Coq Require Import List Bool ZArith Lia.
Import ListNotations.
From Rosed Require Import Base.Res Base.ListX Base.Utf8 Gem.Segment Model.Options Model.Editor Proofs.C05P Inst.GoRt gen.GemCommit Inst.GoCommit
     Proofs.C18X Proofs.C18Y Proofs.C18Z.
Open Scope Z_scope.

(* Whatever text t' a sub-editor selected at bytes [s, en) of p holds when it is
   committed (i.e. after any operations: they replace the text and keep the
   reference), Commit yields p with exactly that region replaced. *)
Theorem C05_commit : forall p s en sel t', sub_ed p s en = Ok sel ->
  commit (with_text sel t') =
  Ok (Ed (firstn (Z.to_nat s) (e_text p) ++ t' ++ skipn (Z.to_nat en) (e_text p)) (e_opts p) (e_ref p)).
Proof. exact commit_splice. Qed.
Print Assumptions C05_commit.

Theorem C05_ref_kept : forall e t o, e_ref (with_text e t) = e_ref e /\ e_ref (with_options e o) = e_ref e.
Proof. intros e t o. exact (conj (with_text_ref e t) (with_options_ref e o)). Qed.
Print Assumptions C05_ref_kept.

(* an unedited sub-editor commits back to its parent, and converts back to the same string, at any depth *)
Theorem C05_unedited : forall p s en sel, sub_ed p s en = Ok sel -> commit sel = Ok p /\ ed_string sel = ed_string p.
Proof. intros p s en sel H. exact (conj (commit_unedited p s en sel H) (string_unedited p s en sel H)). Qed.
Print Assumptions C05_unedited.

(* committing a root Editor is the identity *)
Theorem C05_root : forall e, e_ref e = None -> commit e = Ok e.
Proof. exact commit_root. Qed.
Print Assumptions C05_root.

(* String() / CommitAll is Commit iterated through all ancestors *)
Theorem C05_commit_all : forall e, commit_all e =
  match e_ref e with None => Ok e | Some _ => do c <- commit e; commit_all c end.
Proof. exact commit_all_unfold. Qed.
Print Assumptions C05_commit_all.
Theorem C05_string : forall e,
  ed_string e = match e_ref e with None => Ok (e_text e) | Some _ => do c <- commit_all e; Ok (e_text c) end.
Proof. exact string_is_commit_all. Qed.
Print Assumptions C05_string.

(* Commit and String as they are in subeditor.go now - translated statement by statement on
   every run (gen/GemCommit.v; CommitAll, a loop, is mapped onto the model's commit_all) - are the
   model's commit and ed_string: the prefix and the suffix of the parent's text around the
   recorded byte range, the sub-editor's text between them, the parent's options and reference *)
Theorem C05_commit_is_the_source : forall e, go_Commit e = commit e /\ go_String e = ed_string e.
Proof. intro e. exact (conj (go_commit_eq e) (go_string_eq e)). Qed.
Print Assumptions C05_commit_is_the_source.

(* "... so the result is valid UTF-8 whenever the inputs are": a character or line selection of
   valid text, given any valid text, commits to valid text *)
Theorem C05_commit_valid_utf8 : forall (C : Classifier) e s0 e0 sel t' c,
  valid_utf8 (e_text e) = true ->
  (chars e s0 e0 = Ok sel \/ (valid_utf8 (o_linesep (with_defaults (e_opts e))) = true /\ ed_lines_sel e s0 e0 = Ok sel)) ->
  valid_utf8 t' = true -> commit (with_text sel t') = Ok c -> valid_utf8 (e_text c) = true.
Proof.
  intros C e s0 e0 sel t' c He Hsel Ht Hc.
  assert (Hr : ref_ok sel) by (destruct Hsel as [E|[Hs E]]; [exact (chars_ref_ok e s0 e0 sel He E)|exact (lines_sel_ref_ok e s0 e0 sel He Hs E)]).
  exact (commit_valid (with_text sel t') c Ht Hr Hc).
Qed.
Print Assumptions C05_commit_valid_utf8.

(* at any nesting depth: all_ok (valid text, every link of the parent chain cut at code-point
   boundaries) holds of Edit(valid text), is kept by Chars, Lines, Commit and by every
   replacement of the text by valid text, and gives valid UTF-8 from CommitAll and String *)
Theorem C05_nested_valid_utf8 : forall (C : Classifier) e s0 e0 r t,
  (valid_utf8 t = true -> all_ok (edit t)) /\
  (all_ok e -> valid_utf8 t = true -> all_ok (with_text e t)) /\
  (all_ok e -> chars e s0 e0 = Ok r -> all_ok r) /\
  (all_ok e -> valid_utf8 (o_linesep (with_defaults (e_opts e))) = true -> ed_lines_sel e s0 e0 = Ok r -> all_ok r) /\
  (all_ok e -> commit e = Ok r -> all_ok r) /\
  (all_ok e -> commit_all e = Ok r -> valid_utf8 (e_text r) = true) /\
  (all_ok e -> ed_string e = Ok t -> valid_utf8 t = true).
Proof.
  intros C e s0 e0 r t.
  exact (conj (all_ok_edit t) (conj (all_ok_with_text e t) (conj (all_ok_chars e s0 e0 r)
        (conj (all_ok_lines e s0 e0 r) (conj (all_ok_commit e r) (conj (commit_all_valid e r) (string_valid e t))))))).
Qed.
Print Assumptions C05_nested_valid_utf8.
