(* C05 - Committing a sub-editor rewrites exactly the selected region. *)
From Coq Require Import List Bool ZArith Lia.
Import ListNotations.
From Rosed Require Import Base.Res Base.ListX Gem.Segment Model.Options Model.Editor Proofs.C05P Inst.GoRt gen.GemCommit Inst.GoCommit.
Open Scope Z_scope.

(* Whatever text t' a sub-editor selected at bytes [s, en) of p holds when it is
   committed (i.e. after any operations: they replace the text and keep the
   reference), Commit yields p with exactly that region replaced. *)
Theorem C05_commit : forall p s en sel t', sub_ed p s en = Ok sel ->
  commit (with_text sel t') =
  Ok (Ed (firstn (Z.to_nat s) (e_text p) ++ t' ++ skipn (Z.to_nat en) (e_text p)) (e_opts p) (e_ref p)).
Proof. exact commit_splice. Qed.
Print Assumptions C05_commit.

Theorem C05_ref_kept : forall e t o, e_ref (with_text e t) = e_ref e /\ e_ref (with_options e o) = e_ref e.
Proof. intros e t o. exact (conj (with_text_ref e t) (with_options_ref e o)). Qed.
Print Assumptions C05_ref_kept.

(* an unedited sub-editor commits back to its parent, and converts back to the same string, at any depth *)
Theorem C05_unedited : forall p s en sel, sub_ed p s en = Ok sel -> commit sel = Ok p /\ ed_string sel = ed_string p.
Proof. intros p s en sel H. exact (conj (commit_unedited p s en sel H) (string_unedited p s en sel H)). Qed.
Print Assumptions C05_unedited.

(* committing a root Editor is the identity *)
Theorem C05_root : forall e, e_ref e = None -> commit e = Ok e.
Proof. exact commit_root. Qed.
Print Assumptions C05_root.

(* String() / CommitAll is Commit iterated through all ancestors *)
Theorem C05_commit_all : forall e, commit_all e =
  match e_ref e with None => Ok e | Some _ => do c <- commit e; commit_all c end.
Proof. exact commit_all_unfold. Qed.
Print Assumptions C05_commit_all.
Theorem C05_string : forall e,
  ed_string e = match e_ref e with None => Ok (e_text e) | Some _ => do c <- commit_all e; Ok (e_text c) end.
Proof. exact string_is_commit_all. Qed.
Print Assumptions C05_string.

(* Commit and String as they are in subeditor.go now - translated statement by statement on
   every run (gen/GemCommit.v; CommitAll, a loop, is mapped onto the model's commit_all) - are the
   model's commit and ed_string: the prefix and the suffix of the parent's text around the
   recorded byte range, the sub-editor's text between them, the parent's options and reference *)
Theorem C05_commit_is_the_source : forall e, go_Commit e = commit e /\ go_String e = ed_string e.
Proof. intro e. exact (conj (go_commit_eq e) (go_string_eq e)). Qed.
Print Assumptions C05_commit_is_the_source.
