(* C13 - Align pads every line to the exact width on the correct side. *)
From Coq Require Import List Bool ZArith Lia.
Import ListNotations.
From Rosed Require Import Base.ListX Gem.Segment Gem.GString Model.Manip Proofs.SeamP Proofs.C13P Inst.Go Inst.GoOk.
Open Scope Z_scope.

(* Left: the line minus its leading whitespace clusters, then spaces up to the width
   (none if the kept text is already as wide or wider). For every classifier meeting
   ClassifierOk, in particular the Go one. *)
Theorem C13_left : forall (C : Classifier) (K : ClassifierOk) (text : gstr) (w : Z),
  align_left text w = concat (kept_left text) ++ spaces (Z.max 0 (w - zlen (kept_left text))).
Proof. intros C K. exact (align_left_text). Qed.
Print Assumptions C13_left.

(* hence exactly max(w, kept) clusters wide, when the line does not end in a Prepend character *)
Theorem C13_left_width : forall (C : Classifier) (K : ClassifierOk) (text : gstr) (w : Z),
  ends_ok text -> glen (align_left text w) = Z.max w (zlen (kept_left text)).
Proof. intros C K. exact (align_left_width). Qed.
Print Assumptions C13_left_width.

(* Right: spaces first, then the line minus its trailing whitespace clusters *)
Theorem C13_right : forall (C : Classifier) (K : ClassifierOk) (text : gstr) (w : Z),
  align_right text w = spaces (Z.max 0 (w - zlen (kept_right text))) ++ concat (kept_right text).
Proof. intros C K. exact (align_right_text). Qed.
Print Assumptions C13_right.

Theorem C13_right_width : forall (C : Classifier) (K : ClassifierOk) (text : gstr) (w : Z),
  starts_ok text -> glen (align_right text w) = Z.max w (zlen (kept_right text)).
Proof. intros C K. exact (align_right_width). Qed.
Print Assumptions C13_right_width.

(* Center: both ends stripped, the left pad equal to or one more than the right pad *)
Theorem C13_center : forall (C : Classifier) (K : ClassifierOk) (text : gstr) (w : Z),
  let kept := kept_center text in
  let need := w - zlen kept in
  align_center text w =
  if need <=? 0 then concat kept else spaces (need - need / 2) ++ concat kept ++ spaces (need / 2).
Proof. intros C K. exact (align_center_text). Qed.
Print Assumptions C13_center.

Theorem C13_center_width : forall (C : Classifier) (K : ClassifierOk) (text : gstr) (w : Z),
  all_safe text -> glen (align_center text w) = Z.max w (zlen (kept_center text)).
Proof. intros C K. exact (align_center_width). Qed.
Print Assumptions C13_center_width.

(* the classifier built from the Go tables meets the hypotheses *)
Theorem C13_go_classifier_ok : @ClassifierOk GoClassifier.
Proof. exact GoClassifierOk. Qed.
Print Assumptions C13_go_classifier_ok.
