(* C13 - Align pads every line to the exact width on the correct side. *)
From Coq Require Import List Bool ZArith Lia.
Import ListNotations.
From Rosed Require Import Base.ListX Gem.Segment Gem.GString Model.Manip Proofs.SeamP Proofs.C13P Inst.Go Inst.GoOk Inst.GoRt gen.GemAlign Inst.GoAlign Base.Res Base.Utf8 Base.Str Model.Table Model.Options Model.Editor Model.Ops Proofs.OpsMapP Model.Tb Proofs.C11P Proofs.C11Q.
Open Scope Z_scope.

(* Left: the line minus its leading whitespace clusters, then spaces up to the width
   (none if the kept text is already as wide or wider). For every classifier meeting
   ClassifierOk, in particular the Go one. *)
Theorem C13_left : forall (C : Classifier) (K : ClassifierOk) (text : gstr) (w : Z),
  align_left text w = concat (kept_left text) ++ spaces (Z.max 0 (w - zlen (kept_left text))).
Proof. intros C K. exact (align_left_text). Qed.
Print Assumptions C13_left.

(* hence exactly max(w, kept) clusters wide, when the line does not end in a Prepend character *)
Theorem C13_left_width : forall (C : Classifier) (K : ClassifierOk) (text : gstr) (w : Z),
  ends_ok text -> glen (align_left text w) = Z.max w (zlen (kept_left text)).
Proof. intros C K. exact (align_left_width). Qed.
Print Assumptions C13_left_width.

(* Right: spaces first, then the line minus its trailing whitespace clusters *)
Theorem C13_right : forall (C : Classifier) (K : ClassifierOk) (text : gstr) (w : Z),
  align_right text w = spaces (Z.max 0 (w - zlen (kept_right text))) ++ concat (kept_right text).
Proof. intros C K. exact (align_right_text). Qed.
Print Assumptions C13_right.

Theorem C13_right_width : forall (C : Classifier) (K : ClassifierOk) (text : gstr) (w : Z),
  starts_ok text -> glen (align_right text w) = Z.max w (zlen (kept_right text)).
Proof. intros C K. exact (align_right_width). Qed.
Print Assumptions C13_right_width.

(* Center: both ends stripped, the left pad equal to or one more than the right pad *)
Theorem C13_center : forall (C : Classifier) (K : ClassifierOk) (text : gstr) (w : Z),
  let kept := kept_center text in
  let need := w - zlen kept in
  align_center text w =
  if need <=? 0 then concat kept else spaces (need - need / 2) ++ concat kept ++ spaces (need / 2).
Proof. intros C K. exact (align_center_text). Qed.
Print Assumptions C13_center.

Theorem C13_center_width : forall (C : Classifier) (K : ClassifierOk) (text : gstr) (w : Z),
  all_safe text -> glen (align_center text w) = Z.max w (zlen (kept_center text)).
Proof. intros C K. exact (align_center_width). Qed.
Print Assumptions C13_center_width.

(* the classifier built from the Go tables meets the hypotheses *)
Theorem C13_go_classifier_ok : @ClassifierOk GoClassifier.
Proof. exact GoClassifierOk. Qed.
Print Assumptions C13_go_classifier_ok.

(* Align as an Editor operation, outside paragraph mode: the result is the separator-join of the
   aligned lines of the one line decomposition (C10), with an empty last piece - i.e. the final
   terminator - exactly when the text ended with the separator and trailing separators are on.
   So the number of lines is unchanged and each line is what C13_left/_right/_center describe. *)
Theorem C13_align_opts_lines : forall (C : Classifier) (U : Upper) align width opts e,
  o_preserve (with_defaults opts) = false -> (align = A_Left \/ align = A_Right \/ align = A_Center) ->
  align_opts align width opts e =
    Ok (with_text e (join (o_linesep (with_defaults opts))
                          (mapped_lines (fun l => encode (align_line align (decode l) width)) opts e))).
Proof. intros C U. exact align_opts_lines. Qed.
Print Assumptions C13_align_opts_lines.

(* alignment None or an unknown value returns the Editor unchanged *)
Theorem C13_align_none : forall (C : Classifier) (U : Upper) align width opts e,
  align <> A_Left -> align <> A_Right -> align <> A_Center -> align_opts align width opts e = Ok e.
Proof. intros C U. exact align_opts_none. Qed.
Print Assumptions C13_align_none.

(* Align in paragraph mode, for a paragraph separator that starts and ends with the line
   separator (no_affix; the case the property's quantifier names): the result is the
   paragraph-separator join of every piece with each of its lines aligned (align_piece) *)
Theorem C13_align_paragraphs : forall (C : Classifier) (U : Upper) a width opts e,
  let o := with_defaults opts in
  (a = A_Left \/ a = A_Right \/ a = A_Center) ->
  o_preserve o = true -> no_affix (o_parasep o) (o_linesep o) ->
  let ps := pieces (e_text e) (o_parasep o) (o_linesep o) in
  align_opts a width opts e =
    Ok (with_text e (join (o_parasep o) (map (fun b => encode (align_piece a width (decode (o_linesep o)) (decode b))) ps))).
Proof. intros C U. exact align_opts_paragraphs. Qed.
Print Assumptions C13_align_paragraphs.

(* AlignLineLeft / AlignLineRight / AlignLineCenter and the two white-space counters as they are
   in internal/manip/manip.go now - translated statement by statement on every run
   (gen/GemFuncs.v) - are the model's functions, for every text, width and classifier (Go's
   truncating division agrees with the model's where it is used: a positive number of missing
   columns) *)
Theorem C13_align_functions_are_the_source : forall (C : Classifier) text width,
  go_CountLeadingWhitespace text = count_leading_ws text /\ go_CountTrailingWhitespace text = count_trailing_ws text /\
  go_AlignLineLeft text width = align_left text width /\ go_AlignLineRight text width = align_right text width /\
  go_AlignLineCenter text width = align_center text width.
Proof.
  intros C text width.
  exact (conj (go_count_leading_eq text) (conj (go_count_trailing_eq text) (conj (go_align_left_eq text width)
        (conj (go_align_right_eq text width) (go_align_center_eq text width))))).
Qed.
Print Assumptions C13_align_functions_are_the_source.
