(* C07 - Whitespace operations never lose, invent or reorder text. Proved (about the model):
   the facts about CollapseSpace's final pass, and CollapseSpace as a whole on clusters
   (C07_collapse_clusters: the non-whitespace cluster sequence is kept, only single U+0020
   remain as white space; C07_collapse_space_idempotent) for every classifier, under the
   stated condition that no cluster can merge with a space placed next to it - without it
   the property is false of the code (DESIGN.md section 7, KF1). For the three AlignLine
   functions and for JustifyLine the statement itself is proved: the non-white-space clusters
   of the result are those of the line, in order (C07_align_line_keeps_text,
   C07_justify_line_keeps_text). Wrap: C07_wrap_words; Indent: C07_indent_lines. The
   paragraph plumbing is judged on every generated case by the executable checkers
   check_C07_*. *)
From Coq Require Import List Bool ZArith Lia.
Import ListNotations.
From Rosed Require Import Base.Res Base.Str Gem.Segment Gem.GString Model.Manip Model.Table Model.Tb Proofs.SeamP Proofs.C13P Proofs.C07P Proofs.C07Q Proofs.C06R Base.Utf8 Model.Options Model.Editor Model.Ops Proofs.OpsMapP Proofs.C12R Proofs.C07R.
Open Scope Z_scope.

(* after CollapseSpace no two U+0020 are adjacent, for every text and separator *)
Theorem C07_collapse_single_spaces : forall (C : Classifier) (U : Upper) text sep r,
  collapse_space text sep = Ok r -> NoDouble SP r.
Proof. intros C U. exact collapse_space_no_double. Qed.
Print Assumptions C07_collapse_single_spaces.

(* the run-collapsing pass removes only U+0020 code points: all others are kept, in order *)
Theorem C07_collapse_keeps_text : forall s prev,
  filter (fun r => negb (r =? SP)) (collapse_runs SP prev s) = filter (fun r => negb (r =? SP)) s.
Proof. exact (collapse_runs_keeps_others SP). Qed.
Print Assumptions C07_collapse_keeps_text.

(* and is idempotent *)
Theorem C07_collapse_idempotent : forall s, collapse_runs SP false (collapse_runs SP false s) = collapse_runs SP false s.
Proof. exact (collapse_runs_idem SP). Qed.
Print Assumptions C07_collapse_idempotent.

(* CollapseSpace on clusters. t0 is the text with separators already turned into spaces.
   The result's clusters are those of t0 with every white-space cluster replaced by U+0020 and
   every U+0020 that follows another one dropped; hence the non-white-space clusters are the
   same, in the same order, and the only white space left is single U+0020. *)
Theorem C07_collapse_clusters : forall (C : Classifier) (K : ClassifierOk) (U : Upper) text sep r,
  let t0 := if gis_empty sep then text else replace_all text sep [SP] in
  safe_text t0 -> collapse_space text sep = Ok r ->
  clusters r = dedup false (map normws (clusters t0)) /\
  nonws (clusters r) = nonws (clusters t0) /\
  Forall (fun c => wsc c = true -> c = [SP]) (clusters r) /\
  safe_text r.
Proof. intros C K U. exact collapse_space_clusters. Qed.
Print Assumptions C07_collapse_clusters.

Theorem C07_collapse_space_idempotent : forall (C : Classifier) (K : ClassifierOk) (U : Upper) text sep r sep2,
  safe_text (if gis_empty sep then text else replace_all text sep [SP]) -> collapse_space text sep = Ok r ->
  (if gis_empty sep2 then r else replace_all r sep2 [SP]) = r ->
  collapse_space r sep2 = Ok r.
Proof. intros C K U. exact collapse_space_idem. Qed.
Print Assumptions C07_collapse_space_idempotent.

(* the hypothesis is met by every text of plain code points, e.g. printable ASCII *)
Theorem C07_plain_text_safe : forall (C : Classifier) (K : ClassifierOk) rs, Forall plain rs -> safe_text rs.
Proof. intros C K. exact plain_text_safe. Qed.
Print Assumptions C07_plain_text_safe.

(* Wrap: the pieces of the wrapped lines (each line is its pieces joined by single U+0020), read
   in order, are exactly the words of the space-collapsed text - maximal runs of clusters that
   are not a space - except that an over-long word appears as chunks o ++ "-" followed by its
   remainder. With C07_collapse_clusters (the collapsed text has the input's non-whitespace
   clusters) this is the property for Wrap on the text-level function. *)
Theorem C07_wrap_words : forall (C : Classifier) (K : ClassifierOk) (U : Upper) text w sep ct b,
  collapse_space text sep = Ok ct -> all_safe ct -> ct <> [] -> wrap text w sep = Ok b ->
  exists pss, b_lines b = map ln pss /\ cov (Z.max w 2) (concat pss) (wds (clusters ct) []).
Proof. intros C K U. exact wrap_words. Qed.
Print Assumptions C07_wrap_words.

(* Indent outside paragraph mode: every line of the one line decomposition gets the prefix
   (the indent string repeated level times) and nothing else changes; levels below 1 are no-ops *)
Theorem C07_indent_lines : forall (C : Classifier) (U : Upper) level opts e ind,
  1 <= level -> o_preserve (with_defaults opts) = false -> repeat_str (o_indent (with_defaults opts)) level = Ok ind ->
  indent_opts level opts e =
    Ok (with_text e (join (o_linesep (with_defaults opts)) (mapped_lines (fun l => ind ++ l) opts e))).
Proof. intros C U. exact indent_opts_lines. Qed.
Print Assumptions C07_indent_lines.

Theorem C07_indent_nop : forall (C : Classifier) (U : Upper) level opts e, level < 1 -> indent_opts level opts e = Ok e.
Proof. intros C U. exact indent_opts_nop. Qed.
Print Assumptions C07_indent_nop.

(* AlignLineLeft / Right / Center: the sequence of non-white-space clusters of the aligned line is
   that of the line (only white-space clusters at the ends are removed, only U+0020 is added);
   the conditions exclude a line whose end could merge with the padding placed next to it *)
Theorem C07_align_line_keeps_text : forall (C : Classifier) (K : ClassifierOk) (text : gstr) (w : Z),
  (ends_ok text -> nonws (clusters (align_left text w)) = nonws (clusters text)) /\
  (starts_ok text -> nonws (clusters (align_right text w)) = nonws (clusters text)) /\
  (all_safe text -> nonws (clusters (align_center text w)) = nonws (clusters text)).
Proof.
  intros C K text w.
  exact (conj (align_left_keeps_text text w) (conj (align_right_keeps_text text w) (align_center_keeps_text text w))).
Qed.
Print Assumptions C07_align_line_keeps_text.

(* JustifyLine: the non-white-space clusters of the justified line are those of the collapsed
   line (hence, by C07_collapse_clusters, of the line), when no word can merge with a space *)
Theorem C07_justify_line_keeps_text : forall (C : Classifier) (K : ClassifierOk) (U : Upper) text w c r,
  collapse_space text [10] = Ok c -> Forall word_ok (split c [SP]) -> justify_line text w = Ok r ->
  nonws (clusters r) = nonws (clusters c).
Proof. intros C K U. exact justify_line_keeps_text. Qed.
Print Assumptions C07_justify_line_keeps_text.
