(* C07 - Whitespace operations never lose, invent or reorder text. Proved so far (about the
   model): the facts about CollapseSpace's final pass below. The preservation of the
   non-whitespace clusters by Wrap, Justify (see C12_justify_line for code points), Align
   (see C13: the kept clusters are copied verbatim) and Indent on seam-safe text is judged on
   every generated case by the executable checkers check_C07_*; its general proof is not
   in the development yet (DESIGN.md section 5). *)
From Coq Require Import List Bool ZArith Lia.
Import ListNotations.
From Rosed Require Import Base.Res Base.Str Gem.Segment Gem.GString Model.Manip Model.Table Proofs.C07P.
Open Scope Z_scope.

(* after CollapseSpace no two U+0020 are adjacent, for every text and separator *)
Theorem C07_collapse_single_spaces : forall (C : Classifier) (U : Upper) text sep r,
  collapse_space text sep = Ok r -> NoDouble SP r.
Proof. intros C U. exact collapse_space_no_double. Qed.
Print Assumptions C07_collapse_single_spaces.

(* the run-collapsing pass removes only U+0020 code points: all others are kept, in order *)
Theorem C07_collapse_keeps_text : forall s prev,
  filter (fun r => negb (r =? SP)) (collapse_runs SP prev s) = filter (fun r => negb (r =? SP)) s.
Proof. exact (collapse_runs_keeps_others SP). Qed.
Print Assumptions C07_collapse_keeps_text.

(* and is idempotent *)
Theorem C07_collapse_idempotent : forall s, collapse_runs SP false (collapse_runs SP false s) = collapse_runs SP false s.
Proof. exact (collapse_runs_idem SP). Qed.
Print Assumptions C07_collapse_idempotent.
