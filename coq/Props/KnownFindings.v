(* The recorded findings (known_findings.json: D11, KF1, D12), as refutations in the model with
   the classifier and the upper-casing table regenerated from the Go source: each full property
   is false of the faithful model at the witness below, evaluated by the kernel. The same
   witnesses, run on the implementation, are the KNOWN-FINDING lines of the checks (C07, C11,
   C16). Kept apart from Props/Cnn.v: these are statements about what does NOT hold. *)
From Coq Require Import List Bool ZArith Lia.
Import ListNotations.
From Rosed Require Import Base.Cls Base.Res Base.ListX Base.Utf8 Base.Str Gem.Segment Gem.GString Model.Util Model.Tb Model.Manip Model.Table
     Model.Options Model.Editor Model.Ops Inst.Go Inst.GoUpper.
Open Scope Z_scope.

(* D11 (C07, degenerate seam): Wrap("a\t" + U+0301 + "b") = "a b". The tab becomes a space, the
   combining mark - which could only start a cluster because a control precedes it - merges with
   that space, and the merged cluster is dropped as white space: a non-white-space cluster of
   the input is missing from the output. *)
Example C07_degenerate_seam_refuted :
  wrap [97; 9; 769; 98] 10 [10] = Ok {| b_lines := [[97; 32; 98]]; b_sep := [10]; b_trailing := false |}.
Proof. vm_compute. reflexivity. Qed.

(* KF1 (C07, C11): paragraph-mode Wrap with LineSeparator "<br>", ParagraphSeparator "<p>" and
   width 2 on "x<p>AA" gives "x-<br>A-<br<p>AA": the placeholder that stands for the separator's
   visible affix is hyphenated with the word, leaks, and the cut removes the last byte of a line
   separator. *)
Definition kf1_opts : options :=
  {| o_indent := []; o_linesep := [60; 98; 114; 62]; o_notrailing := false; o_parasep := [60; 112; 62];
     o_preserve := true; o_justlast := false; o_borders := false; o_headers := false; o_charset := [] |}.
Example C07_wrap_visible_affix_refuted :
  wrap_opts 2 kf1_opts (Ed [120; 60; 112; 62; 65; 65] zero_options None) =
  Ok (Ed [120; 45; 60; 98; 114; 62; 65; 45; 60; 98; 114; 60; 112; 62; 65; 65] zero_options None).
Proof. vm_compute. reflexivity. Qed.

(* D12 (C16): a header cell of three U+03B1 U+0345 (three clusters) is upper-cased after the
   column widths are computed; U+0345 (Extend) becomes U+0399 (Other), six clusters: the header
   row is 8 clusters wide between borders of 7. *)
Example C16_header_upper_refuted :
  map glen (b_lines (make_table [[ [945; 837; 945; 837; 945; 837] ]] 0 [10] true true [43; 124; 45])) = [7; 8; 7].
Proof. vm_compute. reflexivity. Qed.
