(* C20 - Concurrent use of Editors is race-free and equals sequential use.
   What is logic here is the footprint discipline of the only shared mutable state in the
   library - the cache cells of grapheme strings - and that is what is proved. The Go memory
   model itself (torn reads, the race detector's happens-before) is not modelled; it is
   exercised by the race-detector stress run of the check. *)
From Coq Require Import List Bool Arith ZArith Lia.
Import ListNotations.
From Rosed Require Import Base.Res Base.ListX Gem.Segment Gem.GString Gem.GHeap Proofs.C20P.

(* Add and SetCharAt never change any cell that existed before the call *)
Theorem C20_add_frame : forall (C : Classifier) h v s2 l', l' < length h -> rd (fst (gh_add h v s2)) l' = rd h l'.
Proof. intros C. exact gh_add_frame. Qed.
Print Assumptions C20_add_frame.
Theorem C20_set_char_at_frame : forall (C : Classifier) h v idx r l', l' < length h -> rd (fst (gh_set_char_at h v idx r)) l' = rd h l'.
Proof. intros C. exact gh_set_char_at_frame. Qed.
Print Assumptions C20_set_char_at_frame.

(* Len, CharAt, GraphemeIndexes, Runes, Sub and Reverse change at most the receiver's own
   cell, and only from nil to filled *)
Theorem C20_observers_frame : forall (C : Classifier) h v idx,
  ext (g_c v) h (fst (gh_len h v)) /\ ext (g_c v) h (fst (gh_char_at h v idx)) /\
  ext (g_c v) h (fst (gh_indexes h v)) /\ ext (g_c v) h (fst (gh_runes h v)).
Proof. intros C h v idx. exact (conj (gh_len_frame h v) (conj (gh_char_at_frame h v idx) (conj (gh_indexes_frame h v) (gh_runes_frame h v)))). Qed.
Print Assumptions C20_observers_frame.
Theorem C20_sub_reverse_frame : forall (C : Classifier) h v l a b, g_c v = Some l ->
  ext (Some l) h (fst (gh_sub h v a b)) /\ ext (Some l) h (fst (gh_reverse h v)).
Proof. intros C h v l a b Hc. exact (conj (gh_sub_frame h v l a b Hc) (gh_reverse_frame h v l Hc)). Qed.
Print Assumptions C20_sub_reverse_frame.

(* hence a filled cell is never written, the package-level Zero (filled at initialisation) in particular,
   and two operations on values with filled cells do not disturb anything the other can read *)
Theorem C20_filled_never_written : forall own h h' l c, ext own h h' -> l < length h -> rd h l = Some c -> rd h' l = Some c.
Proof. exact filled_cells_never_change. Qed.
Print Assumptions C20_filled_never_written.
Theorem C20_zero_never_written : forall own h', ext own heap0 h' -> rd h' zero_loc = Some [].
Proof. exact zero_cell_never_written. Qed.
Print Assumptions C20_zero_never_written.
Theorem C20_independent : forall own1 own2 h h1 h2 l, ext own1 h h1 -> ext own2 h h2 -> l < length h -> rd h l <> None ->
  rd h1 l = rd h l /\ rd h2 l = rd h l.
Proof. exact independent. Qed.
Print Assumptions C20_independent.
