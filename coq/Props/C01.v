(* C01 - Grapheme segmentation obeys the UAX #29 extended-cluster rules.
   Only statements; each closed by a lemma proved elsewhere. *)
From Coq Require Import List Bool Arith ZArith Lia.
Import ListNotations.
From Rosed Require Import Base.Cls Gem.Break Gem.Uax29 Gem.Dfa Gem.Segment Proofs.SegmentP Proofs.C01P.

(* For every class string and every interior position j: the model of gem.Split
   puts a boundary at j iff the first applicable rule among GB3..GB13 (GB999
   otherwise), applied to the classes before j and the class at j, says break. *)
Theorem C01_rules : forall (cs : list cls) (j : nat), 0 < j < length cs ->
  (In j (split cs) <-> spec_break (rev (firstn j cs)) (nth j cs Other) Brk).
Proof. exact split_meets_uax29. Qed.
Print Assumptions C01_rules.

(* the decision function itself agrees with the rule list in every context, including
   ill-formed ones (leading marks, lone ZWJ, odd runs of regional indicators) *)
Theorem C01_decision : forall pre r n nxt,
  spec_break (r :: pre) n (if sba pre r (n :: nxt) then Brk else NoBrk).
Proof. exact sba_meets_spec. Qed.
Print Assumptions C01_decision.

(* GB1, GB2: no boundary in the empty text; the end of a non-empty text is a boundary *)
Theorem C01_ends : split [] = [] /\ forall cs, cs <> [] -> In (length cs) (split cs).
Proof. exact (conj split_nil split_end). Qed.
Print Assumptions C01_ends.

(* for code points, under any classifier: the cluster list partitions the text, no
   cluster is empty, and its running ends are exactly what gem.Split returns *)
Theorem C01_partition : forall (C : Classifier) (rs : list Z),
  concat (clusters rs) = rs /\ Forall (fun c => c <> []) (clusters rs) /\ ends_from 0 (clusters rs) = split_runes rs.
Proof. intros C rs. exact (conj (clusters_concat rs) (conj (clusters_nonempty rs) (clusters_ends rs))). Qed.
Print Assumptions C01_partition.

(* the streaming (finite-state) segmenter used by the executable model equals the
   backward-scanning one of the Go code *)
Theorem C01_streaming : forall cs, dsplit st0 0 cs = split cs.
Proof. exact dsplit_split. Qed.
Print Assumptions C01_streaming.
