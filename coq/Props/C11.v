(* C11 - Paragraphs are split, transformed independently and rejoined losslessly. *)
From Coq Require Import List Bool ZArith Lia.
Import ListNotations.
From Rosed Require Import Base.Res Base.ListX Base.Utf8 Base.Str Gem.Segment Gem.GString Model.Table Model.Options Model.Editor Model.Ops
     Check.Paras Proofs.C11P Model.Tb Model.Manip Proofs.C11Q.
Open Scope Z_scope.

(* A per-paragraph callback returning its piece unchanged reproduces the Editor exactly,
   for every paragraph and line separator - also when psep ++ lsep = lsep ++ psep and the
   look-ahead repair moves line separators between pieces. (valid = the piece is
   well-formed UTF-8, i.e. survives the []rune round trip the implementation performs.) *)
Theorem C11_identity : forall (C : Classifier) (U : Upper) opts e,
  let o := with_defaults opts in
  o_parasep o <> [] ->
  Forall valid (pieces (e_text e) (o_parasep o) (o_linesep o)) ->
  apply_paragraphs_opts (fun _ para _ _ => Ok [para]) opts e = Ok e.
Proof. intros C U. exact apply_paragraphs_identity. Qed.
Print Assumptions C11_identity.

(* the same for the internal grapheme-string callbacks used by Wrap/Justify/Align in paragraph mode *)
Theorem C11_identity_g : forall (C : Classifier) (U : Upper) (op : gpara_op) opts e,
  (forall i para pre suf, op i para pre suf = Ok [para]) ->
  let o := with_defaults opts in
  o_parasep o <> [] ->
  Forall valid (pieces (e_text e) (o_parasep o) (o_linesep o)) ->
  apply_gparagraphs op opts e = Ok e.
Proof.
  intros C U op opts e Hop. apply (paragraphs_identity op (fun x => x) opts e Hop). intros b Hb. exact Hb.
Qed.
Print Assumptions C11_identity_g.

(* the callback is invoked once per piece: k + 1 times for k separators *)
Theorem C11_count : forall t psep lsep, length (pieces t psep lsep) = length (split t psep).
Proof. exact pieces_count. Qed.
Print Assumptions C11_count.

(* moving a leading line separator to the previous piece's tail does not change the joined text *)
Theorem C11_repair_lossless : forall psep lsep ps, psep ++ lsep = lsep ++ psep ->
  join psep (repair ps lsep false) = join psep ps.
Proof. intros psep lsep ps Hc. rewrite (join_repair psep lsep ps false Hc). destruct ps; reflexivity. Qed.
Print Assumptions C11_repair_lossless.

(* the paragraph loop as a whole: the pieces are computed (with the repair for ambiguous
   separators), then the callback is invoked once per piece, in order, with the index, the
   piece, the separator's visible suffix part before every piece but the first and its prefix
   part after every piece but the last; the results are concatenated and joined by the
   paragraph separator - for every callback, also failing ones and ones returning several
   strings (run_paras is that sequencing) *)
Theorem C11_callback_sequence : forall (C : Classifier) (U : Upper) (op : gpara_op) opts e,
  let o := with_defaults opts in
  let parts := split (o_parasep o) (o_linesep o) in
  let psf := decode (hd [] parts) in
  let np := match parts with _ :: _ :: _ => decode (last parts []) | _ => [] end in
  apply_gparagraphs op opts e =
    do transformed <- run_paras op 0 (pieces (e_text e) (o_parasep o) (o_linesep o)) np psf;
    Ok (with_text e (join (o_parasep o) transformed)).
Proof. intros C U. exact apply_gparagraphs_spec. Qed.
Print Assumptions C11_callback_sequence.

(* Paragraph mode as a homomorphism. no_affix psep lsep: the paragraph separator starts and ends
   with the line separator (so its visible prefix/suffix parts are empty), as for "\n\n" with
   "\n". Then Wrap and Justify with PreserveParagraphs are the paragraph-separator join of the
   operation applied to each piece on its own; every paragraph separator stays in place. *)
Theorem C11_wrap_paragraphs : forall (C : Classifier) (U : Upper) width opts e,
  let o := with_defaults opts in
  o_preserve o = true -> no_affix (o_parasep o) (o_linesep o) ->
  let ps := pieces (e_text e) (o_parasep o) (o_linesep o) in
  wrap_opts width opts e =
    Ok (with_text e (join (o_parasep o) (map (fun b => encode (wrap_piece (Z.max width 2) (decode (o_linesep o)) (decode b))) ps))).
Proof. intros C U. exact wrap_opts_paragraphs. Qed.
Print Assumptions C11_wrap_paragraphs.

Theorem C11_justify_paragraphs : forall (C : Classifier) (U : Upper) width opts e,
  let o := with_defaults opts in
  o_preserve o = true -> no_affix (o_parasep o) (o_linesep o) ->
  let ps := pieces (e_text e) (o_parasep o) (o_linesep o) in
  justify_opts width opts e =
    Ok (with_text e (join (o_parasep o) (map (fun b => encode (justify_piece (o_justlast o) width (decode (o_linesep o)) (decode b))) ps))).
Proof. intros C U. exact justify_opts_paragraphs. Qed.
Print Assumptions C11_justify_paragraphs.

(* the condition holds for the default separators and for CR LF pairs *)
Theorem C11_no_affix_default : forall (C : Classifier), no_affix [10; 10] [10] /\ no_affix [13; 10; 13; 10] [13; 10] /\ no_affix [10; 10; 10] [10].
Proof. intros C. exact no_affix_default. Qed.
Print Assumptions C11_no_affix_default.

Theorem C11_indent_paragraphs : forall (C : Classifier) (U : Upper) level opts e ind,
  let o := with_defaults opts in
  1 <= level -> o_preserve o = true -> repeat_str (o_indent o) level = Ok ind ->
  no_affix (o_parasep o) (o_linesep o) ->
  let ps := pieces (e_text e) (o_parasep o) (o_linesep o) in
  indent_opts level opts e =
    Ok (with_text e (join (o_parasep o) (map (fun b => encode (indent_piece ind opts (decode b))) ps))).
Proof. intros C U. exact indent_opts_paragraphs. Qed.
Print Assumptions C11_indent_paragraphs.
