(* C18 - Every public operation is total: no panics, terminates, valid UTF-8 out.
   Proved so far, about the model (which returns Panic / OutOfFuel where the Go code would
   panic or loop): the operations below - selection and edits, CollapseSpace, Wrap, JustifyLine,
   and Wrap / Justify / Align / Indent through the Editor with their line-wise and
   paragraph-mode plumbing. Termination of the real loops and memory use are observed by the
   correspondence run (recover(), watchdog), not proved. *)
From Coq Require Import List Bool ZArith Lia.
Import ListNotations.
From Rosed Require Import Base.Res Base.ListX Base.Utf8 Base.Str Gem.Segment Gem.GString Model.Manip Model.Table Model.Options Model.Editor Model.Ops
     Proofs.C04P Proofs.C14P Proofs.C18P Proofs.SeamP Proofs.C18Q Proofs.C18R Proofs.C14R Proofs.C18S Proofs.C18T Proofs.C18U Proofs.Utf8SplitP Proofs.C18V Proofs.C18W Proofs.C18X Proofs.C18Y Proofs.C18Z.
Open Scope Z_scope.

(* Chars / Insert / Delete / Overtype on any valid UTF-8 text, any integer positions *)
Theorem C18_selection_and_edits : forall (C : Classifier) (U : Upper) rs o ref s e x, scalars rs ->
  (exists r, chars (Ed (encode rs) o ref) s e = Ok r) /\ (exists r, insert s x (Ed (encode rs) o ref) = Ok r) /\
  (exists r, delete s e (Ed (encode rs) o ref) = Ok r) /\ (exists r, overtype s x (Ed (encode rs) o ref) = Ok r).
Proof.
  intros C U rs o ref s e x Hs.
  exact (conj (chars_total rs o ref s e Hs) (conj (insert_total rs o ref s x Hs) (conj (delete_total rs o ref s e Hs) (overtype_total rs o ref s x Hs)))).
Qed.
Print Assumptions C18_selection_and_edits.

(* the selected text is valid UTF-8 *)
Theorem C18_valid_out : forall (C : Classifier) rs s' e', scalars rs ->
  valid_utf8 (encode (concat (zslice (clusters rs) s' e'))) = true.
Proof. intros C. exact selection_valid. Qed.
Print Assumptions C18_valid_out.

(* CollapseSpace: its re-segmenting loop ends within its fuel and never indexes out of range, for every text and separator *)
Theorem C18_collapse_space : forall (C : Classifier) (U : Upper) text sep opts e,
  (exists r, collapse_space text sep = Ok r) /\ (exists r, collapse_space_opts opts e = Ok r).
Proof. intros C U text sep opts e. exact (conj (collapse_space_total text sep) (collapse_space_opts_total opts e)). Qed.
Print Assumptions C18_collapse_space.

(* Align outside paragraph mode *)
Theorem C18_align : forall (C : Classifier) (U : Upper) align width opts e,
  o_preserve (with_defaults opts) = false -> exists r, align_opts align width opts e = Ok r.
Proof. intros C U. exact align_opts_total. Qed.
Print Assumptions C18_align.

(* InsertTwoColumns: the explicit panic is unreachable *)
Theorem C18_two_columns_no_panic : forall width gap m ex,
  let '(_, _, rw) := two_col_widths width gap m ex in (rw <? 2) = false.
Proof. exact two_col_no_panic. Qed.
Print Assumptions C18_two_columns_no_panic.

(* Wrap: the word loop ends within its fuel - its measure is twice the clusters left in the
   current word plus one for a non-empty current line - and nothing indexes out of range, for
   every text (no assumption on its clusters), width and separator *)
Theorem C18_wrap : forall (C : Classifier) (U : Upper) text w sep, exists b, wrap text w sep = Ok b.
Proof. intros C U. exact wrap_total. Qed.
Print Assumptions C18_wrap.

(* JustifyLine: the gap indexes stay inside the word list, for every text and width *)
Theorem C18_justify_line : forall (C : Classifier) (K : ClassifierOk) text w, exists j, justify_line text w = Ok j.
Proof. intros C K. exact justify_line_total. Qed.
Print Assumptions C18_justify_line.

(* through the Editor: Wrap in either mode; Justify in paragraph mode or with JustifyLastLine;
   Align in either mode and for every alignment value (the block indexing of paragraph mode
   stays in range); Indent outside paragraph mode - every text, width, level and option set *)
Theorem C18_wrap_editor : forall (C : Classifier) (K : ClassifierOk) (U : Upper) width opts e, exists r, wrap_opts width opts e = Ok r.
Proof. intros C K U. exact wrap_opts_total. Qed.
Print Assumptions C18_wrap_editor.

Theorem C18_justify_editor : forall (C : Classifier) (K : ClassifierOk) (U : Upper) width opts e,
  o_preserve (with_defaults opts) = true \/ o_justlast (with_defaults opts) = true -> exists r, justify_opts width opts e = Ok r.
Proof. intros C K U. exact justify_opts_total. Qed.
Print Assumptions C18_justify_editor.

Theorem C18_align_editor : forall (C : Classifier) (K : ClassifierOk) (U : Upper) align width opts e, exists r, align_opts align width opts e = Ok r.
Proof. intros C K U. exact align_opts_total_all. Qed.
Print Assumptions C18_align_editor.

Theorem C18_indent_editor : forall (C : Classifier) (K : ClassifierOk) (U : Upper) level opts e,
  o_preserve (with_defaults opts) = false -> exists r, indent_opts level opts e = Ok r.
Proof. intros C K U. exact indent_opts_total. Qed.
Print Assumptions C18_indent_editor.

(* InsertTwoColumns returns normally for every pair of texts, every non-negative gap, every
   width, percentage and position, on any Editor holding valid UTF-8: neither the explicit
   panic nor a negative padding count is reachable *)
Theorem C18_two_columns : forall (C : Classifier) (K : ClassifierOk) (U : Upper) pos lt rt gap width m ex opts rs o ref,
  scalars rs -> 0 <= gap ->
  exists r, insert_two_columns_opts pos lt rt gap width m ex opts (Ed (encode rs) o ref) = Ok r.
Proof. intros C K U. exact two_columns_total. Qed.
Print Assumptions C18_two_columns.

(* InsertDefinitionsTable and InsertTable: every list of definitions / grid of cells, width,
   position and option set, on any Editor holding valid UTF-8 - padding counts are never
   negative, block indexes stay in range *)
Theorem C18_definitions_table : forall (C : Classifier) (K : ClassifierOk) (U : Upper) pos defs width opts rs o ref, scalars rs ->
  exists r, insert_definitions_table_opts pos defs width opts (Ed (encode rs) o ref) = Ok r.
Proof. intros C K U. exact definitions_table_total. Qed.
Print Assumptions C18_definitions_table.

Theorem C18_table : forall (C : Classifier) (K : ClassifierOk) (U : Upper) pos data width opts rs o ref, scalars rs ->
  exists r, insert_table_opts pos data width opts (Ed (encode rs) o ref) = Ok r.
Proof. intros C K U. exact table_total. Qed.
Print Assumptions C18_table.

(* Justify and Indent in every mode (Justify without JustifyLastLine goes through the
   sub-editor of all lines but the last and its Commit) *)
Theorem C18_justify_editor_all : forall (C : Classifier) (K : ClassifierOk) (U : Upper) width opts e, exists r, justify_opts width opts e = Ok r.
Proof. intros C K U. exact justify_opts_total_all. Qed.
Print Assumptions C18_justify_editor_all.

Theorem C18_indent_editor_all : forall (C : Classifier) (K : ClassifierOk) (U : Upper) level opts e, exists r, indent_opts level opts e = Ok r.
Proof. intros C K U. exact indent_opts_total_all. Qed.
Print Assumptions C18_indent_editor_all.

(* valid UTF-8 out. What an operation writes is the encoding of a list of code points - valid
   whatever they are, the encoder writes U+FFFD for a value that is not a scalar - or a separator
   from the options, or a concatenation of such pieces *)
Theorem C18_encoding_is_valid : forall rs, valid_utf8 (encode rs) = true.
Proof. exact encode_valid. Qed.
Print Assumptions C18_encoding_is_valid.

Theorem C18_valid_concat : forall a b sep l,
  (valid_utf8 a = true -> valid_utf8 b = true -> valid_utf8 (a ++ b) = true) /\
  (valid_utf8 sep = true -> Forall (fun x => valid_utf8 x = true) l -> valid_utf8 (join sep l) = true).
Proof. intros a b sep l. exact (conj (valid_app a b) (valid_join sep l)). Qed.
Print Assumptions C18_valid_concat.

(* CollapseSpace and Wrap (outside paragraph mode): valid output for every input, valid or not;
   Align (outside paragraph mode): valid output for a valid text and a valid line separator *)
Theorem C18_valid_layout : forall (C : Classifier) (U : Upper) width align opts e r,
  (collapse_space_opts opts e = Ok r -> valid_utf8 (e_text r) = true) /\
  (o_preserve (with_defaults opts) = false -> wrap_opts width opts e = Ok r -> valid_utf8 (e_text r) = true) /\
  (o_preserve (with_defaults opts) = false -> valid_utf8 (o_linesep (with_defaults opts)) = true -> valid_utf8 (e_text e) = true ->
   align_opts align width opts e = Ok r -> valid_utf8 (e_text r) = true).
Proof.
  intros C U width align opts e r.
  exact (conj (collapse_space_valid opts e r) (conj (wrap_valid width opts e r) (align_valid align width opts e r))).
Qed.
Print Assumptions C18_valid_layout.

(* paragraph mode: every operation writes, per paragraph, the encoding of what its paragraph
   function returns, joined by the paragraph separator - valid for every text, valid or not,
   and whatever the function returns *)
Theorem C18_valid_paragraph_mode : forall (C : Classifier) (U : Upper) op opts e r,
  valid_utf8 (o_parasep (with_defaults opts)) = true -> apply_gparagraphs op opts e = Ok r -> valid_utf8 (e_text r) = true.
Proof. intros C U. exact apply_gparagraphs_valid. Qed.
Print Assumptions C18_valid_paragraph_mode.

Theorem C18_valid_layout_paragraphs : forall (C : Classifier) (U : Upper) width align level opts e r,
  o_preserve (with_defaults opts) = true -> valid_utf8 (o_parasep (with_defaults opts)) = true ->
  (wrap_opts width opts e = Ok r -> valid_utf8 (e_text r) = true) /\
  (justify_opts width opts e = Ok r -> valid_utf8 (e_text r) = true) /\
  (valid_utf8 (e_text e) = true -> align_opts align width opts e = Ok r -> valid_utf8 (e_text r) = true) /\
  (valid_utf8 (e_text e) = true -> indent_opts level opts e = Ok r -> valid_utf8 (e_text r) = true).
Proof.
  intros C U width align level opts e r Hp Hv.
  exact (conj (wrap_valid_paras width opts e r Hp Hv) (conj (justify_valid_paras width opts e r Hp Hv)
        (conj (align_valid_paras align width opts e r Hp Hv) (indent_valid_paras level opts e r Hp Hv)))).
Qed.
Print Assumptions C18_valid_layout_paragraphs.

(* line mode: the line-separator join of what the line function returns; Justify of every line *)
Theorem C18_valid_line_mode : forall (C : Classifier) (U : Upper) (op : line_op) opts e r,
  (forall k l r, op k l = Ok r -> Forall (fun x => valid_utf8 x = true) r) ->
  valid_utf8 (o_linesep (with_defaults opts)) = true -> apply_opts op opts e = Ok r -> valid_utf8 (e_text r) = true.
Proof. intros C U. exact apply_opts_valid. Qed.
Print Assumptions C18_valid_line_mode.

Theorem C18_valid_justify_all_lines : forall (C : Classifier) (U : Upper) width opts e r,
  o_preserve (with_defaults opts) = false -> o_justlast (with_defaults opts) = true ->
  valid_utf8 (o_linesep (with_defaults opts)) = true -> justify_opts width opts e = Ok r -> valid_utf8 (e_text r) = true.
Proof. intros C U. exact justify_valid_all. Qed.
Print Assumptions C18_valid_justify_all_lines.

(* Insert, Delete, Overtype: valid text (and valid inserted text) in, valid text out *)
Theorem C18_valid_edits : forall (C : Classifier) (U : Upper) p q x e r, valid_utf8 (e_text e) = true ->
  (valid_utf8 x = true -> insert p x e = Ok r -> valid_utf8 (e_text r) = true) /\
  (delete p q e = Ok r -> valid_utf8 (e_text r) = true) /\
  (overtype p x e = Ok r -> valid_utf8 (e_text r) = true).
Proof.
  intros C U p q x e r He.
  exact (conj (fun Hx => insert_valid p x e r He Hx) (conj (delete_valid p q e r He) (overtype_valid p x e r He))).
Qed.
Print Assumptions C18_valid_edits.

(* UTF-8 is self-synchronising: Split, Join and ReplaceAll on the bytes of valid texts are Split,
   Join and ReplaceAll on their code points (the model uses one set of string functions at both
   levels on this ground) *)
Theorem C18_bytes_and_code_points : forall rs q new l, scalars rs -> scalars q ->
  (q <> [] -> split (encode rs) (encode q) = map encode (split rs q)) /\
  join (encode q) (map encode l) = encode (join q l) /\
  replace_all (encode rs) (encode q) (encode new) = encode (replace_all rs q new).
Proof.
  intros rs q new l Hs Hq.
  exact (conj (fun Hne => split_encode rs q Hne Hs Hq) (conj (join_encode q l) (replace_all_encode rs q new Hs Hq))).
Qed.
Print Assumptions C18_bytes_and_code_points.

(* hence the lines (paragraphs, ...) of a valid text at a valid separator are valid *)
Theorem C18_valid_pieces : forall s sep, valid_utf8 s = true -> valid_utf8 sep = true -> sep <> [] ->
  Forall (fun x => valid_utf8 x = true) (split s sep).
Proof. exact split_valid. Qed.
Print Assumptions C18_valid_pieces.

(* line mode on valid text: every line function that maps valid lines to valid lines; Indent *)
Theorem C18_valid_line_mode_valid_text : forall (C : Classifier) (U : Upper) (op : line_op) opts e r,
  (forall k l r, valid_utf8 l = true -> op k l = Ok r -> Forall (fun x => valid_utf8 x = true) r) ->
  valid_utf8 (e_text e) = true -> valid_utf8 (o_linesep (with_defaults opts)) = true ->
  apply_opts op opts e = Ok r -> valid_utf8 (e_text r) = true.
Proof. intros C U. exact apply_opts_valid_lines. Qed.
Print Assumptions C18_valid_line_mode_valid_text.

Theorem C18_valid_indent_lines : forall (C : Classifier) (U : Upper) level opts e r, o_preserve (with_defaults opts) = false ->
  valid_utf8 (e_text e) = true -> valid_utf8 (o_linesep (with_defaults opts)) = true -> valid_utf8 (o_indent (with_defaults opts)) = true ->
  indent_opts level opts e = Ok r -> valid_utf8 (e_text r) = true.
Proof. intros C U. exact indent_valid_lines. Qed.
Print Assumptions C18_valid_indent_lines.

(* the three inserted layouts: a block of code points, encoded and inserted with Insert *)
Theorem C18_valid_inserted_layouts : forall (C : Classifier) (U : Upper) pos lt rt gap width m ex defs data opts e r,
  valid_utf8 (e_text e) = true ->
  (insert_two_columns_opts pos lt rt gap width m ex opts e = Ok r -> valid_utf8 (e_text r) = true) /\
  (insert_definitions_table_opts pos defs width opts e = Ok r -> valid_utf8 (e_text r) = true) /\
  (valid_utf8 (o_linesep (with_defaults opts)) = true -> insert_table_opts pos data width opts e = Ok r -> valid_utf8 (e_text r) = true).
Proof.
  intros C U pos lt rt gap width m ex defs data opts e r He.
  exact (conj (two_columns_valid pos lt rt gap width m ex opts e r He) (conj (definitions_table_valid pos defs width opts e r He)
        (fun Hs => table_valid pos data width opts e r He Hs))).
Qed.
Print Assumptions C18_valid_inserted_layouts.

(* selections cut the text at code-point boundaries. ref_ok r: what precedes and what follows
   the selection in the parent's text are valid UTF-8. A Lines selection of valid text holds valid
   text (Chars: C18_valid_out); both kinds are ref_ok; Commit of a ref_ok editor holding valid text
   gives valid text *)
Theorem C18_valid_selections_and_commit : forall (C : Classifier) e s0 e0 r c,
  valid_utf8 (e_text e) = true ->
  (valid_utf8 (o_linesep (with_defaults (e_opts e))) = true -> ed_lines_sel e s0 e0 = Ok r -> valid_utf8 (e_text r) = true /\ ref_ok r) /\
  (chars e s0 e0 = Ok r -> ref_ok r) /\
  (valid_utf8 (e_text r) = true -> ref_ok r -> commit r = Ok c -> valid_utf8 (e_text c) = true).
Proof.
  intros C e s0 e0 r c He.
  exact (conj (fun Hs E => conj (lines_sel_valid e s0 e0 r He Hs E) (lines_sel_ref_ok e s0 e0 r He Hs E))
        (conj (chars_ref_ok e s0 e0 r He) (commit_valid r c))).
Qed.
Print Assumptions C18_valid_selections_and_commit.

(* Justify in line mode, with or without JustifyLastLine (without: all lines but the last are
   justified in a sub-editor that is then committed) *)
Theorem C18_valid_justify_lines : forall (C : Classifier) (U : Upper) width opts e r, o_preserve (with_defaults opts) = false ->
  valid_utf8 (e_text e) = true -> valid_utf8 (o_linesep (with_defaults opts)) = true ->
  justify_opts width opts e = Ok r -> valid_utf8 (e_text r) = true.
Proof. intros C U. exact justify_valid_lines. Qed.
Print Assumptions C18_valid_justify_lines.

(* chains of selections. all_ok e: the text of e is valid UTF-8 and every link of its parent
   chain cuts the parent's text at code-point boundaries (chain_ok). It holds of Edit(valid
   text); Chars, Lines, Commit and every replacement of the text by valid text keep it; and it
   makes CommitAll and String return valid UTF-8 *)
Theorem C18_valid_chains : forall (C : Classifier) e s0 e0 r t o,
  (valid_utf8 t = true -> all_ok (edit t)) /\
  (all_ok e -> valid_utf8 t = true -> all_ok (with_text e t)) /\
  (all_ok e -> all_ok (with_options e o)) /\
  (all_ok e -> chars e s0 e0 = Ok r -> all_ok r) /\
  (all_ok e -> valid_utf8 (o_linesep (with_defaults (e_opts e))) = true -> ed_lines_sel e s0 e0 = Ok r -> all_ok r) /\
  (all_ok e -> commit e = Ok r -> all_ok r) /\
  (all_ok e -> commit_all e = Ok r -> valid_utf8 (e_text r) = true) /\
  (all_ok e -> ed_string e = Ok t -> valid_utf8 t = true).
Proof.
  intros C e s0 e0 r t o.
  exact (conj (all_ok_edit t) (conj (all_ok_with_text e t) (conj (all_ok_with_options e o) (conj (all_ok_chars e s0 e0 r)
        (conj (all_ok_lines e s0 e0 r) (conj (all_ok_commit e r) (conj (commit_all_valid e r) (string_valid e t)))))))).
Qed.
Print Assumptions C18_valid_chains.
