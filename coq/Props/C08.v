(* C08 - Editors are immutable values; operations are deterministic. *)
From Coq Require Import List Bool ZArith Lia.
Import ListNotations.
From Rosed Require Import Base.Res Base.ListX Gem.Segment Model.Table Model.Options Model.Editor Model.Ops Model.Hist Proofs.C08P Gem.GString Gem.GHeap Gem.GSpec Proofs.C19H.
Open Scope Z_scope.

(* whatever sequence of operations is run over a pool of Editors, every Editor obtained earlier is still what it was *)
Theorem C08_frame : forall (C : Classifier) (U : Upper) pool steps k e,
  nth_error pool k = Some e -> nth_error (pool_after pool steps) k = Some e.
Proof. intros C U. exact earlier_entries_unchanged. Qed.
Print Assumptions C08_frame.

Theorem C08_deterministic : forall (C : Classifier) (U : Upper) e1 e2 o1 o2, e1 = e2 -> o1 = o2 -> run_op e1 o1 = run_op e2 o2.
Proof. intros C U. exact deterministic. Qed.
Print Assumptions C08_deterministic.

(* sub-editors derived from one parent do not affect one another: each commits into the parent as it was *)
Theorem C08_siblings : forall p s1 e1 sel1 s2 e2 sel2 t1 t2,
  sub_ed p s1 e1 = Ok sel1 -> sub_ed p s2 e2 = Ok sel2 ->
  commit (with_text sel1 t1) =
  Ok (Ed (firstn (Z.to_nat s1) (e_text p) ++ t1 ++ skipn (Z.to_nat e1) (e_text p)) (e_opts p) (e_ref p)) /\
  commit (with_text sel2 t2) =
  Ok (Ed (firstn (Z.to_nat s2) (e_text p) ++ t2 ++ skipn (Z.to_nat e2) (e_text p)) (e_opts p) (e_ref p)).
Proof. exact siblings_independent. Qed.
Print Assumptions C08_siblings.

(* the grapheme strings underneath the Editors: over every history of New / Zero / copy / Add / Sub /
   SetCharAt / Repeat / CharAt / Len / Runes / GraphemeIndexes on a heap of values that share
   lazily filled cache cells (copies share a cell; Add, Sub, SetCharAt and Repeat build a new
   value), every value shows at every step what the pure pool shows, in which a value is its
   code points and nothing is ever updated - an operation never changes a value obtained earlier,
   it only adds one (C19_history, C19_operands_kept restated for this property's anchors) *)
Theorem C08_gem_values_immutable : forall (C : Classifier) ops, Forall in_c19 ops ->
  map (fun so => (view (fst so), snd so)) (grun (heap0, []) ops) = prun [] ops /\
  (forall pool o, fst (pstep pool o) = pool \/ exists x, fst (pstep pool o) = pool ++ [x]).
Proof. intros C ops Hops. split; [exact (proj1 (history_from_start ops Hops))|exact pstep_appends]. Qed.
Print Assumptions C08_gem_values_immutable.
