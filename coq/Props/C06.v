(* C06 - Wrap: no line exceeds the width; breaking is greedy and stable. Proved so far (about
   the model): widths below 2 act as 2, and Wrap is total - its word loop ends within its
   fuel for every text, width and separator. The width bound, spacing, greediness and
   idempotence on seam-safe text are judged on every generated case by the executable
   checker check_C06 (and the two-step idempotence cases); their general proofs are not in
   the development yet (DESIGN.md section 5). *)
From Coq Require Import List Bool ZArith Lia.
Import ListNotations.
From Rosed Require Import Base.Res Base.ListX Gem.Segment Gem.GString Model.Tb Model.Manip Model.Table Proofs.C06P.
Open Scope Z_scope.

Theorem C06_clamp : forall (C : Classifier) text w sep, wrap text w sep = wrap text (Z.max w 2) sep.
Proof. intros C. exact wrap_clamp. Qed.
Print Assumptions C06_clamp.

Theorem C06_total : forall (C : Classifier) (U : Upper) text w sep, exists b, wrap text w sep = Ok b.
Proof. intros C U. exact wrap_total. Qed.
Print Assumptions C06_total.

(* the inner loop: terminates within 2 * |word| + 3 steps *)
Theorem C06_word_loop : forall (C : Classifier) (U : Upper) lines curWord curLine width, 2 <= width ->
  exists r, append_word_to_wrapped_line lines curWord curLine width = Ok r.
Proof. intros C U. exact append_word_to_line_total. Qed.
Print Assumptions C06_word_loop.
