(* C06 - Wrap: no line exceeds the width; breaking is greedy and stable. Proved so far (about
   the model): widths below 2 act as 2; Wrap is total; no line of the wrapped block is wider
   than the clamped width for every text whatsoever (C06_width_every_text, by the
   subadditivity of segmentation, C06_clusters_subadditive); the exact form of that bound
   whenever the space-collapsed text consists of safe clusters
   (none starts with an extending character or ends in a Prepend character - the
   degenerate-seam class D11 is exactly what this excludes); and, under the same condition,
   C06_structure: every line is its pieces (words or hyphen-ended chunks of an over-long
   word) joined by single U+0020, no piece is empty or holds a space cluster - so no line is
   empty or starts or ends with a space - and breaking is greedy: a line that is not full is
   followed by a piece that would not have fitted on it; a word is cut (cov) only when it is
   longer than the width; the greedy partition is unique (C06_greedy_unique), hence wrapping
   text whose collapsed form is the pieces of an earlier wrap joined by single spaces gives
   the same lines again (C06_wrap_again). For the default line separator U+000A that is carried
   through to the Editor: C06_wrap_stable_lf (the lines, joined by U+000A with or without a
   trailing one, wrap to the same lines), C06_wrap_twice (Wrap(w) of the result of Wrap(w) is
   that result, byte for byte) and C06_trailing_separator (the result ends with U+000A exactly
   when the text did) - all under the safe-cluster condition; and the same for every line
   separator that is a single code point other than the space and the hyphen
   (C06_wrap_stable_single_separator) and, through the Editor, a single ASCII character
   (C06_wrap_twice_ascii_separator). For other separators the re-joined form depends on the
   separator (self-overlapping separators; a separator "-" swallows the continuation hyphens)
   and is judged on every generated case by check_C06 and the wrap-twice cases. *)
From Coq Require Import List Bool ZArith Lia.
Import ListNotations.
From Rosed Require Import Base.Res Base.ListX Gem.Segment Gem.GString Model.Tb Model.Manip Model.Table Base.Str Proofs.SeamP Proofs.C13P Proofs.C06P Proofs.C06Q Proofs.C06R Proofs.C06S Proofs.SubaddP Proofs.C06T Proofs.C04P Proofs.C07Q Proofs.C06U Proofs.C06V Proofs.C06W Proofs.C06X Base.Utf8 Model.Options Model.Editor Model.Ops Base.Cls Inst.Go Inst.GoOk.
Open Scope Z_scope.

Theorem C06_clamp : forall (C : Classifier) text w sep, wrap text w sep = wrap text (Z.max w 2) sep.
Proof. intros C. exact wrap_clamp. Qed.
Print Assumptions C06_clamp.

Theorem C06_total : forall (C : Classifier) (U : Upper) text w sep, exists b, wrap text w sep = Ok b.
Proof. intros C U. exact wrap_total. Qed.
Print Assumptions C06_total.

(* the inner loop: terminates within 2 * |word| + 3 steps *)
Theorem C06_word_loop : forall (C : Classifier) (U : Upper) lines curWord curLine width, 2 <= width ->
  exists r, append_word_to_wrapped_line lines curWord curLine width = Ok r.
Proof. intros C U. exact append_word_to_line_total. Qed.
Print Assumptions C06_word_loop.

(* the width bound: every line of the block holds at most max(w,2) clusters *)
Theorem C06_width : forall (C : Classifier) (K : ClassifierOk) (U : Upper) text w sep ct b,
  collapse_space text sep = Ok ct -> all_safe ct -> wrap text w sep = Ok b ->
  Forall (fun l => glen l <= Z.max w 2) (b_lines b).
Proof. intros C K U. exact wrap_width. Qed.
Print Assumptions C06_width.

(* the structure of the wrapped lines (W = max(w,2)):
     ln ps          = the pieces ps joined by single U+0020
     lp_ok W ps     = ps is not empty, every piece is non-empty, safe and free of space clusters, and ln ps has at most W clusters
     chain W pss    = for consecutive lines ps, ps': ln ps is full (W clusters) or W < |ln ps| + 1 + |first piece of ps'|
     wds cl []      = the words of the collapsed text: maximal runs of clusters that are not a space
     cov ps ws      = the pieces ps, in order, are the words ws, except that a word may be cut into
                      chunks o ++ "-" followed by its remainder (which also serves C07 for Wrap:
                      nothing is lost, invented or reordered; only those hyphens are added) *)
Theorem C06_structure : forall (C : Classifier) (K : ClassifierOk) (U : Upper) text w sep ct b,
  collapse_space text sep = Ok ct -> all_safe ct -> ct <> [] -> wrap text w sep = Ok b ->
  exists pss, b_lines b = map ln pss /\ Forall (lp_ok (Z.max w 2)) pss /\ chain (Z.max w 2) pss /\
              cov (Z.max w 2) (concat pss) (wds (clusters ct) []).
Proof. intros C K U. exact wrap_structure. Qed.
Print Assumptions C06_structure.

(* two partitions of one piece sequence into lines that both respect the width and are both
   greedy are the same partition *)
Theorem C06_greedy_unique : forall (C : Classifier) (K : ClassifierOk) (U : Upper) W pss pss',
  Forall (lp_ok W) pss -> Forall (lp_ok W) pss' -> chain W pss -> chain W pss' ->
  concat pss = concat pss' -> pss = pss'.
Proof. intros C K U. exact greedy_unique. Qed.
Print Assumptions C06_greedy_unique.

(* wrapping again: if text' collapses to the pieces of wrap(text) joined by single spaces, it
   wraps to the same lines *)
Theorem C06_wrap_again : forall (C : Classifier) (K : ClassifierOk) (U : Upper) text w sep ct b text',
  collapse_space text sep = Ok ct -> all_safe ct -> ct <> [] -> wrap text w sep = Ok b -> b_lines b <> [] ->
  (forall pss, b_lines b = map ln pss -> collapse_space text' sep = Ok (ln (concat pss))) ->
  exists b', wrap text' w sep = Ok b' /\ b_lines b' = b_lines b.
Proof. intros C K U. exact wrap_again. Qed.
Print Assumptions C06_wrap_again.

(* segmentation is subadditive: joining two texts never gives more clusters than the two have
   together - every classifier, every pair of texts, nothing assumed about how they end or start.
   (Joining can merge clusters across the seam and shift the pairing of regional indicators, but
   never creates more boundaries than it removes: a simulation between the segmenter run in
   context and run alone, with a potential of one pending boundary, checked over all pairs of
   states and classes.) *)
Theorem C06_clusters_subadditive : forall (C : Classifier) a b, glen (a ++ b) <= glen a + glen b.
Proof. intros C. exact glen_app_le. Qed.
Print Assumptions C06_clusters_subadditive.

(* the width bound with no assumption at all: every text, width and separator *)
Theorem C06_width_every_text : forall (C : Classifier) text w sep b,
  wrap text w sep = Ok b -> Forall (fun l => glen l <= Z.max w 2) (b_lines b).
Proof. intros C. exact wrap_width_all. Qed.
Print Assumptions C06_width_every_text.

(* ... and appending never reduces the number of clusters (the boundaries inside the first text
   depend only on what precedes them); prepending can: U+1F600 in front of ZWJ U+1F600 ZWJ U+1F600
   makes one cluster of two *)
Theorem C06_clusters_monotone_left : forall (C : Classifier) a b, glen a <= glen (a ++ b).
Proof. intros C. exact glen_app_ge_left. Qed.
Print Assumptions C06_clusters_monotone_left.

(* stability for the default line separator: the lines of a wrap, joined by U+000A (with a
   trailing U+000A or without), wrap to the same lines. safe_text: every cluster of the text
   (line separators read as spaces) neither starts with an extending code point nor ends in a
   Prepend one, and is either a white-space cluster or free of white space;
   tl10 tr = if tr then [10] else [] *)
Theorem C06_wrap_stable_lf : forall (C : Classifier) (K : ClassifierOk) (U : Upper) text w ct b tr,
  safe_text (replace_all text [10] [SP]) -> collapse_space text [10] = Ok ct -> ct <> [] ->
  wrap text w [10] = Ok b -> b_lines b <> [] ->
  exists b', wrap (join [10] (b_lines b) ++ tl10 tr) w [10] = Ok b' /\ b_lines b' = b_lines b.
Proof. intros C K U. exact wrap_stable_lf. Qed.
Print Assumptions C06_wrap_stable_lf.

(* Editor.Wrap twice: with the default line separator, outside paragraph mode, wrapping the
   result of a wrap to the same width returns it unchanged - text, options and parent link *)
Theorem C06_wrap_twice : forall (C : Classifier) (K : ClassifierOk) (U : Upper) rs o0 ref o w e1,
  scalars rs -> o_linesep (with_defaults o) = [10] -> o_preserve (with_defaults o) = false ->
  safe_text (replace_all rs [10] [SP]) ->
  wrap_opts w o (Ed (encode rs) o0 ref) = Ok e1 -> wrap_opts w o e1 = Ok e1.
Proof. intros C K U. exact C06V.wrap_editor_stable. Qed.
Print Assumptions C06_wrap_twice.

(* ... and the result ends with the line separator exactly when the text did *)
Theorem C06_trailing_separator : forall (C : Classifier) (K : ClassifierOk) (U : Upper) rs o0 ref o w e1,
  scalars rs -> o_linesep (with_defaults o) = [10] -> o_preserve (with_defaults o) = false ->
  safe_text (replace_all rs [10] [SP]) ->
  wrap_opts w o (Ed (encode rs) o0 ref) = Ok e1 -> has_suffix (e_text e1) [10] = has_suffix (encode rs) [10].
Proof. intros C K U. exact C06V.wrap_editor_trailing. Qed.
Print Assumptions C06_trailing_separator.

(* the same for every line separator that is one code point other than U+0020 and U+002D
   (tls s tr = if tr then [s] else []) *)
Theorem C06_wrap_stable_single_separator : forall (C : Classifier) (K : ClassifierOk) (U : Upper) s, s <> SP -> s <> HYPHEN ->
  forall text w ct b tr,
  safe_text (replace_all text [s] [SP]) -> collapse_space text [s] = Ok ct -> ct <> [] ->
  wrap text w [s] = Ok b -> b_lines b <> [] ->
  exists b', wrap (join [s] (b_lines b) ++ tls s tr) w [s] = Ok b' /\ b_lines b' = b_lines b.
Proof. intros C K U. exact wrap_stable_sep. Qed.
Print Assumptions C06_wrap_stable_single_separator.

(* ... and through the Editor for a single ASCII character (tab, "|", CR, ...) *)
Theorem C06_wrap_twice_ascii_separator : forall (C : Classifier) (K : ClassifierOk) (U : Upper) s, 0 <= s < 128 -> s <> SP -> s <> HYPHEN ->
  forall rs o0 ref o w e1,
  scalars rs -> o_linesep (with_defaults o) = [s] -> o_preserve (with_defaults o) = false ->
  safe_text (replace_all rs [s] [SP]) ->
  wrap_opts w o (Ed (encode rs) o0 ref) = Ok e1 ->
  wrap_opts w o e1 = Ok e1 /\ has_suffix (e_text e1) [s] = has_suffix (encode rs) [s].
Proof.
  intros C K U s H1 H2 H3 rs o0 ref o w e1 Hs Hl Hp Hsafe Hw.
  exact (conj (C06X.wrap_editor_stable s H1 H2 H3 rs o0 ref o w e1 Hs Hl Hp Hsafe Hw)
              (C06X.wrap_editor_trailing s H1 H2 H3 rs o0 ref o w e1 Hs Hl Hp Hsafe Hw)).
Qed.
Print Assumptions C06_wrap_twice_ascii_separator.

(* the premises of C06_wrap_twice can be met with the classifier regenerated from the Go source:
   "e" U+0301 "b cd  a" LF wrapped to width 4 is "e" U+0301 "b" LF "cd a" LF *)
Definition C06_rs_ex : list Z := [101; 769; 98; 32; 99; 100; 32; 32; 97; 10].
Definition C06_out_ex : list Z := encode [101; 769; 98; 10; 99; 100; 32; 97; 10].

Example C06_wrap_twice_premises_met :
  scalars C06_rs_ex /\ o_linesep (with_defaults zero_options) = [10] /\ o_preserve (with_defaults zero_options) = false /\
  safe_text (replace_all C06_rs_ex [10] [SP]) /\
  wrap_opts 4 zero_options (Ed (encode C06_rs_ex) zero_options None) = Ok (Ed C06_out_ex zero_options None).
Proof.
  split; [repeat constructor|]. split; [reflexivity|]. split; [reflexivity|]. split; [|vm_compute; reflexivity].
  assert (E0 : replace_all C06_rs_ex [10] [SP] = [101; 769; 98; 32; 99; 100; 32; 32; 97; 32]) by (vm_compute; reflexivity).
  assert (E1 : clusters [101; 769; 98; 32; 99; 100; 32; 32; 97; 32] = [[101; 769]; [98]; [32]; [99]; [100]; [32]; [32]; [97]; [32]]) by (vm_compute; reflexivity).
  assert (Hc : forall r, In r [97; 98; 32; 99; 100; 101] -> go_class_of r = Other).
  { intros r Hr. cbn [In] in Hr. repeat (destruct Hr as [<-|Hr]; [vm_compute; reflexivity|]). destruct Hr. }
  assert (H769 : go_class_of 769 = Extend) by (vm_compute; reflexivity).
  assert (Hs : forall x, In x [97; 98; 32; 99; 100; 101] -> forall t, starts_ok (x :: t)).
  { intros x Hx t. cbn [starts_ok]. change (@class_of GoClassifier x) with (go_class_of x). rewrite (Hc x Hx). repeat split; discriminate. }
  assert (He1 : forall x, In x [97; 98; 32; 99; 100; 101] -> ends_ok [x]).
  { intros x Hx. right. cbn [List.last]. change (@class_of GoClassifier x) with (go_class_of x). rewrite (Hc x Hx). discriminate. }
  assert (He2 : ends_ok [101; 769]).
  { right. cbn [List.last]. change (@class_of GoClassifier 769) with (go_class_of 769). rewrite H769. discriminate. }
  unfold safe_text. rewrite E0, E1.
  repeat (apply Forall_cons; [split; [split; [apply Hs; cbn [In]; tauto|first [exact He2|apply He1; cbn [In]; tauto]]|first [left; reflexivity|right; repeat constructor]]|]).
  apply Forall_nil.
Qed.
