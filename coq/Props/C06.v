(* C06 - Wrap: no line exceeds the width; breaking is greedy and stable. Proved so far (about
   the model): widths below 2 act as 2; Wrap is total; and no line of the wrapped block is
   wider than the clamped width whenever the space-collapsed text consists of safe clusters
   (none starts with an extending character or ends in a Prepend character - the
   degenerate-seam class D11 is exactly what this excludes). Spacing, greediness and
   idempotence are judged on every generated case by the executable checker check_C06 and
   the wrap-twice cases; their general proofs are not in the development yet. *)
From Coq Require Import List Bool ZArith Lia.
Import ListNotations.
From Rosed Require Import Base.Res Base.ListX Gem.Segment Gem.GString Model.Tb Model.Manip Model.Table Proofs.SeamP Proofs.C13P Proofs.C06P Proofs.C06Q.
Open Scope Z_scope.

Theorem C06_clamp : forall (C : Classifier) text w sep, wrap text w sep = wrap text (Z.max w 2) sep.
Proof. intros C. exact wrap_clamp. Qed.
Print Assumptions C06_clamp.

Theorem C06_total : forall (C : Classifier) (U : Upper) text w sep, exists b, wrap text w sep = Ok b.
Proof. intros C U. exact wrap_total. Qed.
Print Assumptions C06_total.

(* the inner loop: terminates within 2 * |word| + 3 steps *)
Theorem C06_word_loop : forall (C : Classifier) (U : Upper) lines curWord curLine width, 2 <= width ->
  exists r, append_word_to_wrapped_line lines curWord curLine width = Ok r.
Proof. intros C U. exact append_word_to_line_total. Qed.
Print Assumptions C06_word_loop.

(* the width bound: every line of the block holds at most max(w,2) clusters *)
Theorem C06_width : forall (C : Classifier) (K : ClassifierOk) (U : Upper) text w sep ct b,
  collapse_space text sep = Ok ct -> all_safe ct -> wrap text w sep = Ok b ->
  Forall (fun l => glen l <= Z.max w 2) (b_lines b).
Proof. intros C K U. exact wrap_width. Qed.
Print Assumptions C06_width.
