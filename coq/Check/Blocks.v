(* Executable checkers for C14 (two columns), C15 (definitions table), C16 (tables),
   C11 (paragraph homomorphism) and C17/C18 helpers. *)
From Coq Require Import List Bool ZArith Lia.
Import ListNotations.
From Rosed Require Import Base.Cls Base.Res Base.ListX Base.Utf8 Base.Str Gem.Segment Gem.GString
     Model.Util Model.Tb Model.Manip Model.Table Model.Options Check.Common Check.Select Check.Layout.
Open Scope Z_scope.

Section Blocks.
Context `{Classifier} `{Upper}.

(* lines of wrapping a single-line text to a width: the function "wrap" that C14/C15 refer to *)
Definition wrapped (text : list Z) (w : Z) (sep : list Z) : list (list Z) :=
  match wrap (decode text) w (decode sep) with Ok b => b_lines b | _ => [] end.

Definition pad_to (line : list Z) (k : Z) : list Z := line ++ repeatn [SP] (Z.to_nat (k - glen line)).

(* the inserted block sits between the clusters before and after the normalised position *)
Definition inserted_ok (t : list Z) (pos : Z) (block out : list Z) : bool :=
  zlist_eqb out (insert_expected t pos block).

(* ---- C14 ---- *)
Definition two_col_block (l r : list Z) (lw rw gap : Z) (sep : list Z) (ntl : bool) : list Z :=
  let L := wrapped l lw sep in
  let R := wrapped r rw sep in
  let n := Nat.max (length L) (length R) in
  let rows := map (fun i => pad_to (nth i L []) (lw + gap) ++ nth i R []) (seq 0 n) in
  encode (join (decode sep) rows) ++ (if ntl then [] else sep).

Definition guard_C14 (t l r sep : list Z) (gap w : Z) : bool :=
  valid_utf8 t && seam_safe l && seam_safe r && plain_cfg sep && negb (gis_empty sep) && (0 <=? gap) && (gap <=? 1000)
  && small_width w && negb (contains l sep) && negb (contains r sep)
  && negb (contains sep [SP]) && negb (contains sep [HYPHEN]).

(* there are column widths lw, rw >= 2 with lw + gap + rw = W for which the output is the juxtaposition *)
(* [hint] is a candidate left width tried first (it only speeds the search up) *)
Definition check_C14 (hint : Z) (t : list Z) (pos : Z) (l r : list Z) (gap w : Z) (sep : list Z) (ntl : bool) (out : list Z) : bool :=
  match l, r with
  | [], [] => zlist_eqb out t
  | _, _ =>
      let W := Z.max w (gap + 4) in
      ((2 <=? hint) && (2 <=? W - gap - hint) && inserted_ok t pos (two_col_block l r hint (W - gap - hint) gap sep ntl) out)
      || existsb (fun k => let lw := 2 + Z.of_nat k in let rw := W - gap - lw in
                        (2 <=? rw) && inserted_ok t pos (two_col_block l r lw rw gap sep ntl) out)
              (seq 0 (Z.to_nat (W - gap - 3)))
  end.

(* ---- C15 ---- *)
Definition def_item (term def : list Z) (T w : Z) (sep : list Z) : list Z :=
  let D := match wrapped def (Z.max (w - T - 6) 2) sep with [] => [[]] | d => d end in
  let termr := decode term in
  let first := [SP; SP] ++ termr ++ repeatn [SP] (Z.to_nat (T - glen termr)) ++ [SP; SP] ++ [HYPHEN; SP] ++ hd [] D in
  let conts := map (fun d => repeatn [SP] (Z.to_nat (T + 6)) ++ d) (tl D) in
  encode (join (decode sep) (first :: conts)).

Definition guard_C15 (t : list Z) (defs : list (list Z * list Z)) (o : options) (w : Z) : bool :=
  valid_utf8 t && forallb (fun d => seam_safe (fst d) && seam_safe (snd d)
                                      && negb (contains (fst d) (o_linesep o)) && negb (contains (snd d) (o_linesep o))
                                      && negb (contains (fst d) (o_parasep o)) && negb (contains (snd d) (o_parasep o))) defs
  && plain_cfg (o_linesep o) && plain_cfg (o_parasep o) && small_width w
  && negb (contains (o_linesep o) [SP]) && negb (contains (o_linesep o) [HYPHEN]).

Definition check_C15 (t : list Z) (pos : Z) (defs : list (list Z * list Z)) (w : Z) (o : options) (out : list Z) : bool :=
  match defs with
  | [] => zlist_eqb out t
  | _ =>
      let T := fold_left (fun acc d => Z.max acc (glen (decode (fst d)))) defs 0 in
      let items := map (fun d => def_item (fst d) (snd d) T w (o_linesep o)) defs in
      let block := join (o_parasep o) items ++ (if o_notrailing o then [] else o_linesep o) in
      inserted_ok t pos block out
  end.

(* ---- C16 ---- *)
Definition guard_C16 (t : list Z) (data : list (list (list Z))) (o : options) (w : Z) : bool :=
  valid_utf8 t && forallb (forallb (fun c => seam_safe c && negb (contains c (o_linesep o)))) data
  && plain_cfg (o_linesep o) && plain_cfg (o_charset o) && small_width w
  && forallb (forallb (fun c => forallb (fun r => match class_of (upper r) with Other | ExtPict => true | c' => cls_eqb c' (class_of r) end
                                                   && cls_eqb (class_of (upper r)) (class_of r)) (decode c))) data.

Definition cell_of (row : list (list Z)) (j : nat) : list Z := nth j row [].

(* expected rendering of a table from column widths ws (ws_j includes padding) *)
Definition table_expected (data : list (list (list Z))) (ws : list Z) (W : Z) (o : options) : list (list Z) :=
  let cs := decode (o_charset o) in
  let corner := [nth 0 cs 0] in let vert := [nth 1 cs 0] in let horz := [nth 2 cs 0] in
  let border := o_borders o in let header := o_headers o in
  let hbar := corner ++ flat_map (fun w => repeatn horz (Z.to_nat w) ++ corner) ws in
  let row_line := fun (i : nat) (row : list (list Z)) =>
    (if border then vert else []) ++
    flat_map (fun p : nat * Z =>
                let '(j, w) := p in
                let cell := decode (cell_of row j) in
                if (Nat.eqb i 0) && header then
                  let h := map upper cell in
                  if border then decode (align_expected 3 (encode h) w) ++ vert
                  else decode (align_expected 1 (encode h) w)
                else if border then [SP] ++ decode (align_expected 1 (encode cell) (w - 1)) ++ vert
                else decode (align_expected 1 (encode cell) w)) (combine (seq 0 (length ws)) ws) in
  let rows := flat_map (fun p : nat * list (list Z) =>
                          let '(i, row) := p in
                          row_line i row ::
                          (if (Nat.eqb i 0) && header then
                             (if border then (if 1 <? zlen data then [hbar] else []) else [repeatn horz (Z.to_nat W)])
                           else [])) (combine (seq 0 (length data)) data) in
  (if border then [hbar] else []) ++ rows ++ (if border then [hbar] else []).

Definition check_C16 (t : list Z) (pos : Z) (data : list (list (list Z))) (w : Z) (o : options) (out : list Z) : bool :=
  let ncols := fold_left (fun acc row => Nat.max acc (length row)) data O in
  match ncols with
  | O => zlist_eqb out t
  | _ =>
      let border := o_borders o in
      let content := map (fun j => fold_left (fun acc row => Z.max acc (glen (decode (cell_of row j)))) data 0) (seq 0 ncols) in
      let padded := map (fun p : nat * Z => snd p + (if border then 2 else if Nat.ltb (S (fst p)) ncols then 2 else 0))
                        (combine (seq 0 ncols) content) in
      let minw := sumZ padded + (if border then Z.of_nat ncols + 1 else 0) in
      let W := Z.max w minw in
      let surplus := W - minw in
      let n := if negb border && Nat.ltb 1 ncols then Z.of_nat ncols - 1 else Z.of_nat ncols in
      let ws := map (fun p : nat * Z => let i := Z.of_nat (fst p) in
                                         if i <? n then snd p + surplus / n + (if i <? surplus mod n then 1 else 0) else snd p)
                    (combine (seq 0 ncols) padded) in
      let lines := table_expected data ws W o in
      (* rectangular, of the expected width *)
      forallb (fun l => glen l =? W) lines
      (* a table whose joined text is empty (a single line of width 0) inserts nothing, not even the trailing separator *)
      && (let body := encode (join (decode (o_linesep o)) lines) in
          inserted_ok t pos (match body with [] => [] | _ => body ++ (if o_notrailing o then [] else o_linesep o) end) out)
  end.

End Blocks.
