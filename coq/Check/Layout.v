(* Executable checkers for C06 (wrap), C07 (whitespace-only changes), C12
   (justify), C13 (align) and C11 (paragraphs). *)
From Coq Require Import List Bool ZArith Lia.
Import ListNotations.
From Rosed Require Import Base.Cls Base.Res Base.ListX Base.Utf8 Base.Str Gem.Segment Gem.GString
     Model.Util Model.Manip Model.Options Check.Common Check.Select.
Open Scope Z_scope.

Section Layout.
Context `{Classifier}.

Definition is_sp_cluster (c : list Z) : bool := zlist_eqb c [SP].
Definition cluster_eqb := zlist_eqb.
Definition clist_eqb (a b : list (list Z)) : bool := list_eqb zlist_eqb a b.

(* non-whitespace clusters of a byte text, separator occurrences counted as whitespace *)
Definition strip_seps (t : list Z) (seps : list (list Z)) : list Z :=
  fold_left (fun acc s => match s with [] => acc | _ => replace_all acc s [SP] end) seps t.
Definition nonws (t : list Z) (seps : list (list Z)) : list (list Z) :=
  filter (fun c => negb (is_ws_cluster c)) (cl_of (strip_seps t seps)).

(* words: maximal runs of non-whitespace clusters *)
Fixpoint words_of (cl : list (list Z)) (cur : list (list Z)) : list (list (list Z)) :=
  match cl with
  | [] => match cur with [] => [] | _ => [rev cur] end
  | c :: cl' => if is_ws_cluster c then (match cur with [] => words_of cl' [] | _ => rev cur :: words_of cl' [] end)
                else words_of cl' (c :: cur)
  end.
Definition words_bytes (t : list Z) (seps : list (list Z)) : list (list (list Z)) :=
  words_of (cl_of (strip_seps t seps)) [].

(* ---- C06: wrap outside paragraph mode ---- *)
Definition first_word (line : list (list Z)) : list (list Z) :=
  match words_of line [] with w :: _ => w | [] => [] end.
Definition ends_with_hyphen (line : list (list Z)) : bool :=
  match rev line with c :: _ => zlist_eqb c [HYPHEN] | [] => false end.
Definition has_space (line : list (list Z)) : bool := existsb is_ws_cluster line.

Fixpoint no_double_space (line : list (list Z)) : bool :=
  match line with
  | a :: ((b :: _) as rest) => negb (is_ws_cluster a && is_ws_cluster b) && no_double_space rest
  | _ => true
  end.

Definition line_spacing_ok (line : list (list Z)) : bool :=
  match line with
  | [] => false
  | c :: _ => negb (is_ws_cluster c) && negb (is_ws_cluster (List.last line [])) && no_double_space line
              && forallb (fun c => implb (is_ws_cluster c) (is_sp_cluster c)) line
  end.

(* greedy: the first word of the next line would not have fitted on this one *)
Fixpoint greedy_ok (w : Z) (lines : list (list (list Z))) : bool :=
  match lines with
  | l :: ((m :: _) as rest) =>
      ((zlen l =? w) && ends_with_hyphen l && negb (has_space l) (* a full-width piece of a split word *)
       || (w <? zlen l + 1 + zlen (first_word m)))
      && greedy_ok w rest
  | _ => true
  end.

(* NFA-style matching: the input's non-whitespace clusters are a subsequence of
   the output's, the extra output elements all being skippable (continuation hyphens) *)
Definition step_states (inp : list (list Z)) (states : list nat) (c : list Z) (skippable : bool) : list nat :=
  let adv := flat_map (fun i => match nth_error inp i with
                                | Some x => if zlist_eqb x c then [S i] else []
                                | None => [] end) states in
  nodup Nat.eq_dec (adv ++ (if skippable then states else [])).
Fixpoint run_states (inp : list (list Z)) (states : list nat) (out : list (list Z * bool)) : list nat :=
  match out with [] => states | (c, sk) :: out' => run_states inp (step_states inp states c sk) out' end.
Definition subseq_with_skips (inp : list (list Z)) (out : list (list Z * bool)) : bool :=
  existsb (Nat.eqb (length inp)) (run_states inp [O] out).

(* output clusters tagged with "may be a continuation hyphen": a hyphen that ends
   a full-width line that contains no space and is followed by another line *)
Fixpoint tag_lines (w : Z) (lines : list (list (list Z))) : list (list Z * bool) :=
  match lines with
  | [] => []
  | l :: rest =>
      let full := (zlen l =? w) && ends_with_hyphen l && negb (has_space l) && (match rest with [] => false | _ => true end) in
      let n := length l in
      let tagged := map (fun p : nat * list Z => (snd p, full && Nat.eqb (S (fst p)) n)) (combine (seq 0 n) l) in
      filter (fun p => negb (is_ws_cluster (fst p))) tagged ++ tag_lines w rest
  end.

Definition guard_C06 (t sep : list Z) (w : Z) : bool :=
  pieces_safe t [sep] && plain_cfg sep && negb (gis_empty sep) && small_width w
  && negb (contains sep [SP]) && negb (contains sep [HYPHEN]).

Definition check_C06 (t sep : list Z) (w : Z) (out : list Z) : bool :=
  let w' := Z.max w 2 in
  let inp := nonws t [sep] in
  let trailing_in := has_suffix t sep in
  let trailing_out := has_suffix out sep in
  let body := if trailing_out then firstn (length out - length sep) out else out in
  let lines := map cl_of (split body sep) in
  match inp with
  | [] => (* no word: a single empty line *)
      Bool.eqb trailing_in trailing_out && forallb (fun l => zlen l <=? w') lines && zlist_eqb (strip_seps body [sep]) body
      && gis_empty body
  | _ =>
      Bool.eqb trailing_in trailing_out
      && forallb (fun l => zlen l <=? w') lines
      && forallb line_spacing_ok lines
      && greedy_ok w' lines
      && subseq_with_skips inp (tag_lines w' lines)
  end.

(* ---- C07: only whitespace changes ---- *)
Definition guard_C07 (t : list Z) (o : options) (w : Z) : bool :=
  pieces_safe t (if o_preserve o then [o_parasep o; o_linesep o] else [o_linesep o]) && plain_cfg (o_linesep o) && plain_cfg (o_parasep o) && plain_cfg (o_indent o) && small_width w.

(* same non-whitespace clusters, in order *)
Definition check_C07_same (t out : list Z) (seps : list (list Z)) : bool :=
  clist_eqb (nonws t seps) (nonws out seps).

(* CollapseSpace: only single U+0020 remain as whitespace *)
Fixpoint collapsed_ok (cl : list (list Z)) : bool :=
  match cl with
  | [] => true
  | c :: rest => implb (is_ws_cluster c) (is_sp_cluster c && match rest with d :: _ => negb (is_ws_cluster d) | [] => true end)
                 && collapsed_ok rest
  end.
Definition check_C07_collapse (t out sep : list Z) : bool :=
  check_C07_same t out [sep] && collapsed_ok (cl_of out).

(* wrap: hyphens may be added; reuse the skip matching over all output clusters, any line-final hyphen skippable *)
Definition check_C07_wrap (t out : list Z) (seps : list (list Z)) (lsep : list Z) : bool :=
  let inp := nonws t seps in
  (* in paragraph mode seps = [paragraph separator; line separator]: paragraph separators count as line ends *)
  let out' := match seps with psep :: _ :: _ => replace_all out psep lsep | _ => out end in
  let lines := map cl_of (split out' lsep) in
  let tagged := flat_map (fun l : list (list Z) =>
                            let n := length l in
                            filter (fun p => negb (is_ws_cluster (fst p)))
                                   (map (fun p : nat * list Z => (snd p, Nat.eqb (S (fst p)) n && zlist_eqb (snd p) [HYPHEN]))
                                        (combine (seq 0 n) l))) lines in
  subseq_with_skips inp tagged.

(* separators kept: occurrences of the paragraph separator are preserved *)
Definition count_occ_sep (t sep : list Z) : Z := match sep with [] => 0 | _ => zlen (split t sep) - 1 end.

(* ---- C13: align one line ---- *)
Fixpoint drop_leading_ws (cl : list (list Z)) : list (list Z) :=
  match cl with c :: rest => if is_ws_cluster c then drop_leading_ws rest else cl | [] => [] end.
Definition drop_trailing_ws (cl : list (list Z)) : list (list Z) := rev (drop_leading_ws (rev cl)).
Definition sp_clusters (n : Z) : list (list Z) := repeat [SP] (Z.to_nat n).

(* align: 1 Left, 2 Right, 3 Center *)
Definition align_expected (align : Z) (line : list Z) (w : Z) : list Z :=
  let cl := cl_of line in
  let kept := if align =? 1 then drop_leading_ws cl else if align =? 2 then drop_trailing_ws cl
              else drop_trailing_ws (drop_leading_ws cl) in
  let k := zlen kept in
  let d := w - k in
  if d <=? 0 then enc_cl kept else
  if align =? 1 then enc_cl (kept ++ sp_clusters d)
  else if align =? 2 then enc_cl (sp_clusters d ++ kept)
  else enc_cl (sp_clusters (d - d / 2) ++ kept ++ sp_clusters (d / 2)).

Definition guard_C13 (t sep : list Z) (w : Z) : bool :=
  pieces_safe t [sep] && plain_cfg sep && negb (gis_empty sep) && small_width w.

Definition check_C13 (align : Z) (t sep : list Z) (ntl : bool) (w : Z) (out : list Z) : bool :=
  if (align =? 1) || (align =? 2) || (align =? 3) then
    zlist_eqb out (apply_expected (fun _ l => [align_expected align l w]) t sep ntl)
  else zlist_eqb out t.

(* ---- C12: justify one line ---- *)
(* space-collapsed form of a line, stated on clusters *)
Fixpoint collapse_cl (cl : list (list Z)) (prev_ws : bool) : list (list Z) :=
  match cl with
  | [] => []
  | c :: rest => if is_ws_cluster c then (if prev_ws then collapse_cl rest true else [SP] :: collapse_cl rest true)
                 else c :: collapse_cl rest false
  end.
(* lengths of the maximal runs of spaces *)
Fixpoint space_runs (cl : list (list Z)) (cur : Z) : list Z :=
  match cl with
  | [] => if 0 <? cur then [cur] else []
  | c :: rest => if is_sp_cluster c then space_runs rest (cur + 1)
                 else (if 0 <? cur then [cur] else []) ++ space_runs rest 0
  end.
Definition minZ (l : list Z) : Z := fold_left Z.min l (hd 0 l).
Definition maxZl (l : list Z) : Z := fold_left Z.max l (hd 0 l).

Definition check_justify_line (line : list Z) (w : Z) (out : list Z) : bool :=
  let c := collapse_cl (cl_of line) false in
  let o := cl_of out in
  if existsb is_sp_cluster c && (zlen c <? w) then
    (zlen o =? w)
    && clist_eqb (filter (fun x => negb (is_sp_cluster x)) o) (filter (fun x => negb (is_sp_cluster x)) c)
    && (let ro := space_runs o 0 in
        (Nat.eqb (length ro) (length (space_runs c 0))) && (maxZl ro - minZ ro <=? 1))
    && Bool.eqb (is_sp_cluster (hd [] o)) (is_sp_cluster (hd [] c))
  else zlist_eqb out (enc_cl c).

Definition guard_C12 (t sep : list Z) (w : Z) : bool :=
  pieces_safe t [sep] && plain_cfg sep && negb (gis_empty sep) && small_width w.

Fixpoint zip_check (f : list Z -> list Z -> bool) (a b : list (list Z)) : bool :=
  match a, b with
  | [], [] => true
  | x :: a', y :: b' => f x y && zip_check f a' b'
  | _, _ => false
  end.

Definition check_C12 (t sep : list Z) (ntl justlast : bool) (w : Z) (out : list Z) : bool :=
  let li := lines_of t sep ntl in
  let lo := lines_of out sep ntl in
  let n := length li in
  Bool.eqb (has_suffix t sep) (has_suffix out sep)
  && Nat.eqb n (length lo)
  && zip_check (fun p q => true) li lo
  && forallb (fun k =>
                let a := nth k li [] in let b := nth k lo [] in
                if negb justlast && Nat.eqb (S k) n then zlist_eqb a b else check_justify_line a w b) (seq 0 n).

End Layout.
