(* Vocabulary shared by the executable property checkers: clusters of a byte
   string, whitespace clusters, the documented position normalisation (written
   independently of util.RangeToIndexes), seam-safety guards. *)
From Coq Require Import List Bool ZArith Lia.
Import ListNotations.
From Rosed Require Import Base.Cls Base.Res Base.ListX Base.Utf8 Base.Str Gem.Dfa Gem.Segment Gem.GString
     Model.Util Model.Manip Model.Options.
Open Scope Z_scope.

Section Common.
Context `{Classifier}.

Definition cl_of (t : list Z) : list (list Z) := clusters (decode t).
Definition is_ws_cluster (c : list Z) : bool := is_space (first_rune c).
Definition enc_cl (cl : list (list Z)) : list Z := encode (concat cl).

(* documented normalisation of one position against n items *)
Definition norm1 (n p : Z) : Z :=
  if p =? go_End then n else if p <? 0 then Z.max 0 (p + n) else Z.min p n.
(* and of a range: an end before the start gives the empty range at the start *)
Definition norm (n s e : Z) : Z * Z :=
  let s' := norm1 n s in let e' := norm1 n e in (s', Z.max s' e').

Definition in_int64 (z : Z) : bool := in_int z.

(* a cluster that cannot merge with a space, hyphen, letter or line feed put next to it *)
Definition last_rune (c : list Z) : Z := List.last c 0.
Definition starts_safe (c : list Z) : bool :=
  match class_of (first_rune c) with Extend | ZWJ | SpacingMark => false | _ => true end.
Definition ends_safe (c : list Z) : bool :=
  match class_of (last_rune c) with Prepend => false | _ => true end.
(* a non-whitespace cluster holds no whitespace code point (a Prepend character
   followed by a space would otherwise be one "word" cluster with a space in it) *)
Definition no_inner_space (c : list Z) : bool := is_space (first_rune c) || forallb (fun r => negb (is_space r)) c.
Definition safe_cluster (c : list Z) : bool := starts_safe c && ends_safe c && no_inner_space c.
(* text all of whose clusters are safe; runes *)
Definition seam_safe_runes (rs : list Z) : bool := forallb safe_cluster (clusters rs).
Definition seam_safe (t : list Z) : bool := valid_utf8 t && seam_safe_runes (decode t).

(* the pieces of t between occurrences of the given separators are each seam-safe
   (operations cut the text at separators before looking at clusters) *)
Definition split_many (t : list Z) (seps : list (list Z)) : list (list Z) :=
  fold_left (fun ps s => match s with [] => ps | _ => flat_map (fun p => split p s) ps end) seps [t].
Definition pieces_safe (t : list Z) (seps : list (list Z)) : bool :=
  valid_utf8 t && forallb (fun p => seam_safe_runes (decode p)) (split_many t seps).

(* configuration strings (separators, indent, charset): every code point is its
   own cluster of class Other, or the string is made of CR/LF only *)
Definition plain_rune (r : Z) : bool :=
  match class_of r with Other | Control => true | _ => false end.
Definition crlf_only (rs : list Z) : bool := forallb (fun r => (r =? 10) || (r =? 13)) rs.
Definition plain_cfg (t : list Z) : bool :=
  valid_utf8 t && (forallb plain_rune (decode t) || crlf_only (decode t)).

Definition contains (s sub : list Z) : bool :=
  match sub with [] => false | _ => match index s sub with Some _ => true | None => false end end.

(* width bounds that keep Go's int arithmetic and memory finite *)
Definition small_width (w : Z) : bool := (-2147483648 <=? w) && (w <=? 2147483647).

End Common.
