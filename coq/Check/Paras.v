(* Executable checkers for C11: the paragraph decomposition (with the look-ahead
   repair for ambiguous separator sequences), what a callback must have been
   given, and the homomorphism of the paragraph-mode operations. *)
From Coq Require Import List Bool ZArith Lia.
Import ListNotations.
From Rosed Require Import Base.Cls Base.Res Base.ListX Base.Utf8 Base.Str Gem.Segment Gem.GString
     Model.Util Model.Tb Model.Manip Model.Table Model.Options Model.Editor Model.Ops Model.Hist
     Check.Common Check.Select Check.Layout.
Open Scope Z_scope.

Section Paras.
Context `{Classifier} `{Upper}.

(* pieces delimited by the paragraph separator; when separator sequences are
   ambiguous (psep ++ lsep = lsep ++ psep) a line separator at the head of a
   piece belongs to the tail of the previous one *)
Fixpoint repair (ps : list (list Z)) (lsep : list Z) (trim : bool) : list (list Z) :=
  match ps with
  | [] => []
  | p :: rest =>
      let p := if trim then skipn (length lsep) p else p in
      match rest with
      | q :: _ => if has_prefix q lsep then (p ++ lsep) :: repair rest lsep true else p :: repair rest lsep false
      | [] => [p]
      end
  end.
Definition paras_of (t psep lsep : list Z) : list (list Z) :=
  let ps := split t psep in
  if zlist_eqb (psep ++ lsep) (lsep ++ psep) then repair ps lsep false else ps.

(* the separator's visible affixes: what precedes its first and follows its last line separator *)
Definition sep_suffix (psep lsep : list Z) : list Z := hd [] (split psep lsep).
Definition sep_prefix (psep lsep : list Z) : list Z :=
  match split psep lsep with (_ :: _ :: _) as parts => List.last parts [] | _ => [] end.

Definition paras_expected (f : Z -> list Z -> list Z -> list Z -> list (list Z)) (t psep lsep : list Z) : list Z :=
  let ps := paras_of t psep lsep in
  let n := length ps in
  join psep (flat_map (fun p : nat * list Z =>
                         let '(i, para) := p in
                         f (Z.of_nat i) para (if Nat.eqb i 0 then [] else sep_prefix psep lsep)
                           (if Nat.eqb (S i) n then [] else sep_suffix psep lsep))
                      (combine (seq 0 n) ps)).

Definition guard_C11 (t psep lsep : list Z) : bool := negb (gis_empty psep) && negb (gis_empty lsep).

(* callback k of the fixed family *)
Definition check_C11_cb (k : Z) (t psep lsep : list Z) (out : list Z) : bool :=
  let f := fun i para pre suf => match para_cb k i para pre suf with Ok l => l | _ => [] end in
  zlist_eqb out (paras_expected f t psep lsep)
  && implb (k =? 0) (zlist_eqb out t)
  && (zlen (paras_of t psep lsep) =? zlen (split t psep)).

(* homomorphism: for a separator made of line separators, paragraphs that neither
   start nor end with a line separator (so the repair does not fire and each
   paragraph's lines are unambiguous), the result is the join of the per-paragraph results *)
Fixpoint made_of (fuel : nat) (s lsep : list Z) : bool :=
  match fuel with
  | O => false
  | S f => match s with [] => true | _ => has_prefix s lsep && made_of f (skipn (length lsep) s) lsep end
  end.
Definition guard_C11_hom (t : list Z) (o : options) : bool :=
  let psep := o_parasep o in let lsep := o_linesep o in
  negb (gis_empty lsep) && negb (gis_empty psep) && made_of (S (length psep)) psep lsep && negb (zlist_eqb psep lsep)
  && negb (o_notrailing o)
  && forallb (fun p => negb (has_prefix p lsep) && negb (has_suffix p lsep)) (split t psep).

Definition check_C11_hom (op : op) (t : list Z) (o : options) (out : list Z) : bool :=
  let single := {| o_indent := o_indent o; o_linesep := o_linesep o; o_notrailing := o_notrailing o;
                   o_parasep := o_parasep o; o_preserve := false; o_justlast := o_justlast o;
                   o_borders := o_borders o; o_headers := o_headers o; o_charset := o_charset o |} in
  let with_o := fun op' => match op' with
                           | OWrap w _ => OWrap w (Some single) | OJustify w _ => OJustify w (Some single)
                           | OAlign a w _ => OAlign a w (Some single) | OIndent l _ => OIndent l (Some single)
                           | x => x end in
  let per := map (fun p => match run_op (edit p) (with_o op) with Ok e => e_text e | _ => [] end) (split t (o_parasep o)) in
  zlist_eqb out (join (o_parasep o) per).

End Paras.
