(* Executable checkers for C04 (character selection), C09 (insert / delete /
   overtype), C10 (lines) and C05 (commit): each states the expected result
   directly from the property text, in terms of the cluster decomposition of
   the input, and compares it with an observed output. *)
From Coq Require Import List Bool ZArith Lia.
Import ListNotations.
From Rosed Require Import Base.Cls Base.Res Base.ListX Base.Utf8 Base.Str Gem.Segment Gem.GString
     Model.Util Model.Manip Model.Options Check.Common.
Open Scope Z_scope.

Section Select.
Context `{Classifier}.

(* ---- C04 ---- *)
(* selection [s, e) of text t: expected text and byte offsets *)
Definition sel_expected (t : list Z) (s e : Z) : list Z * Z * Z :=
  let cl := cl_of t in
  let n := zlen cl in
  let '(s', e') := norm n s e in
  let pre := enc_cl (firstn (Z.to_nat s') cl) in
  let mid := enc_cl (zslice cl s' e') in
  (mid, zlen pre, zlen pre + zlen mid).

Definition guard_C04 (t : list Z) (s e : Z) : bool := valid_utf8 t && in_int64 s && in_int64 e.

(* kind: 0 Chars(s,e), 1 CharsFrom(s), 2 CharsTo(e) *)
Definition check_C04 (kind : Z) (t : list Z) (s e : Z) (out : list Z) (sub : bool) (a b : Z) (str : option (list Z)) (full : list Z) : bool :=
  let n := zlen (cl_of t) in
  let '(s, e) := if kind =? 1 then (s, n) else if kind =? 2 then (0, e) else (s, e) in
  let '(mid, ea, eb) := sel_expected t s e in
  zlist_eqb out mid && sub && (a =? ea) && (b =? eb) && valid_utf8 out
  && match str with Some x => zlist_eqb x full | None => false end.

Definition check_charcount (t : list Z) (count : Z) : bool := count =? zlen (cl_of t).

(* ---- C09 ---- *)
Definition guard_C09 (t x : list Z) (p q : Z) : bool := valid_utf8 t && valid_utf8 x && in_int64 p && in_int64 q.

Definition insert_expected (t : list Z) (p : Z) (x : list Z) : list Z :=
  let cl := cl_of t in let p' := Z.to_nat (norm1 (zlen cl) p) in
  enc_cl (firstn p' cl) ++ x ++ enc_cl (skipn p' cl).
Definition delete_expected (t : list Z) (s e : Z) : list Z :=
  let cl := cl_of t in let '(s', e') := norm (zlen cl) s e in
  enc_cl (firstn (Z.to_nat s') cl) ++ enc_cl (skipn (Z.to_nat e') cl).
Definition overtype_expected (t : list Z) (p : Z) (x : list Z) : list Z :=
  let cl := cl_of t in let n := zlen cl in let p' := norm1 n p in
  let stop := Z.min (p' + zlen (cl_of x)) n in
  enc_cl (firstn (Z.to_nat p') cl) ++ x ++ enc_cl (skipn (Z.to_nat stop) cl).

(* kind: 0 insert, 1 delete, 2 overtype *)
Definition check_C09 (kind : Z) (t : list Z) (p q : Z) (x out : list Z) : bool :=
  zlist_eqb out (if kind =? 0 then insert_expected t p x
                 else if kind =? 1 then delete_expected t p q
                 else overtype_expected t p x).

(* ---- C10 ---- *)
(* the decomposition: lines of t under separator sep and the trailing policy *)
Definition lines_of (t sep : list Z) (ntl : bool) : list (list Z) :=
  let ls := split t sep in
  match rev ls with
  | [] :: rest => if ntl then ls else rev rest
  | _ => ls
  end.

(* byte offset at which line k starts (capped at the end of the text) *)
Definition line_off (t sep : list Z) (ls : list (list Z)) (k : Z) : Z :=
  Z.min (zlen t) (sumZ (map (fun l => zlen l + zlen sep) (firstn (Z.to_nat k) ls))).

Definition guard_C10 (t sep : list Z) (s e : Z) : bool :=
  in_int64 s && in_int64 e && negb (gis_empty sep).

(* kind: 0 Lines(s,e), 1 LinesFrom(s), 2 LinesTo(e) *)
Definition check_C10_sel (kind : Z) (t sep : list Z) (ntl : bool) (s e : Z) (out : list Z) (a b : Z) : bool :=
  match t with
  | [] => zlist_eqb out [] && (a =? 0) && (b =? 0)
  | _ =>
    let ls := lines_of t sep ntl in
    let n := zlen ls in
    let '(s, e) := if kind =? 1 then (s, n) else if kind =? 2 then (0, e) else (s, e) in
    let '(s', e') := norm n s e in
    let ea := line_off t sep ls s' in
    let eb := line_off t sep ls e' in
    (a =? ea) && (b =? eb) && zlist_eqb out (zslice t ea eb)
  end.

Definition check_linecount (t sep : list Z) (ntl : bool) (count : Z) : bool := count =? zlen (lines_of t sep ntl).

(* the pieces (each line with its terminator) concatenate to the text *)
Fixpoint pieces_concat (ls : list (list Z)) (sep : list Z) (t : list Z) : bool :=
  match ls with
  | [] => gis_empty t
  | l :: ls' =>
      has_prefix t l &&
      let r := skipn (length l) t in
      if has_prefix r sep then pieces_concat ls' sep (skipn (length sep) r)
      else gis_empty r && (match ls' with [] => true | _ => false end)
  end.

(* Apply with a callback f: lines are passed in order with their indexes, the
   results are spliced in place, the terminator is re-attached iff the input had one *)
Fixpoint mapi_cat (f : Z -> list Z -> list (list Z)) (i : Z) (ls : list (list Z)) : list (list Z) :=
  match ls with [] => [] | l :: ls' => f i l ++ mapi_cat f (i + 1) ls' end.
Definition apply_expected (f : Z -> list Z -> list (list Z)) (t sep : list Z) (ntl : bool) : list Z :=
  let ls := lines_of t sep ntl in
  let out := mapi_cat f 0 ls in
  let out := if negb ntl && has_suffix t sep then out ++ [[]] else out in
  join sep out.

(* ---- C05 ---- *)
(* committing a sub-editor with text x selected at [a,b) of parent text p *)
Definition commit_expected (p x : list Z) (a b : Z) : list Z :=
  firstn (Z.to_nat a) p ++ x ++ skipn (Z.to_nat b) p.
Definition check_C05_commit (p x : list Z) (a b : Z) (out : list Z) : bool :=
  (0 <=? a) && (a <=? b) && (b <=? zlen p) && zlist_eqb out (commit_expected p x a b)
  && implb (valid_utf8 p && valid_utf8 x) (valid_utf8 out).

End Select.
