(* Extraction of the executable model and the property checkers to OCaml.
   ExtrOcamlBasic only: bool, option, unit, list, prod, sumbool map to the OCaml
   types; Z, positive, N, nat stay the Coq inductives; no Extract Constant. *)
From Coq Require Import Extraction ExtrOcamlBasic ZArith List.
From Rosed Require Import Base.Cls Base.Res Base.ListX Base.Utf8 Base.Str Base.Intervals
     Gem.Break Gem.Dfa Gem.Segment Gem.GString Gem.GHeap
     Model.Util Model.Tb Model.Manip Model.Table Model.Options Model.Editor Model.Ops Model.Hist
     Check.Common Check.Select Check.Layout Check.Blocks Check.Paras
     Inst.Go Inst.GoUpper.
Extraction Language OCaml.
Separate Extraction
  Inst.Go.GoClassifier Inst.Go.class_of_bits Inst.Go.go_class_of Inst.GoUpper.GoUpper Inst.Go.bits Inst.Go.class_of_tabs gen.Tables.go_tables
  Gem.GHeap.grun Gem.GHeap.heap0 Gem.GHeap.rd Gem.Segment.clusters Gem.Segment.split_runes Gem.Break.split
  Base.Utf8.decode Base.Utf8.encode Base.Utf8.valid_utf8
  Model.Hist.run_hist Model.Hist.observe Model.Hist.run_op
  Model.Ops.two_col_widths Model.Options.with_defaults Model.Options.options_eqb Check.Select.commit_expected Model.Util.range_to_indexes
  Model.Manip.is_space
  Check.Common.seam_safe Check.Common.contains Check.Common.pieces_safe Check.Common.plain_cfg Check.Common.norm Check.Common.norm1
  Check.Select.guard_C04 Check.Select.check_C04 Check.Select.check_charcount
  Check.Select.guard_C09 Check.Select.check_C09
  Check.Select.guard_C10 Check.Select.check_C10_sel Check.Select.check_linecount Check.Select.apply_expected
  Check.Select.check_C05_commit Check.Select.lines_of
  Check.Layout.guard_C06 Check.Layout.check_C06 Check.Layout.guard_C07 Check.Layout.check_C07_same
  Check.Layout.check_C07_collapse Check.Layout.check_C07_wrap Check.Layout.count_occ_sep
  Check.Layout.guard_C13 Check.Layout.check_C13 Check.Layout.guard_C12 Check.Layout.check_C12
  Check.Paras.guard_C11 Check.Paras.check_C11_cb Check.Paras.guard_C11_hom Check.Paras.check_C11_hom Check.Paras.sep_suffix Check.Paras.sep_prefix
  Check.Blocks.guard_C14 Check.Blocks.check_C14 Check.Blocks.guard_C15 Check.Blocks.check_C15
  Check.Blocks.guard_C16 Check.Blocks.check_C16
  Z.of_nat Z.to_nat Z.add Z.sub Z.mul Z.opp Z.eqb Z.ltb Z.leb Z.div Z.modulo Z.abs Pos.succ.
