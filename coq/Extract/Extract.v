(* Extraction of the executable model and the property checkers to OCaml.
   ExtrOcamlBasic only: bool, option, unit, list, prod, sumbool map to the OCaml
   types; Z, positive, N, nat stay the Coq inductives; no Extract Constant. *)
From Coq Require Import Extraction ExtrOcamlBasic ZArith List.
From Rosed Require Import Base.Cls Base.Res Base.ListX Base.Utf8 Base.Str Base.Intervals
     Gem.Break Gem.Dfa Gem.Segment Gem.GString
     Model.Util Model.Tb Model.Manip Model.Table Model.Options Model.Editor Model.Ops Model.Hist
     Inst.Go Inst.GoUpper.
Extraction Language OCaml.
Separate Extraction
  Inst.Go.GoClassifier Inst.GoUpper.GoUpper Inst.Go.bits Inst.Go.class_of_tabs gen.Tables.go_tables
  Gem.Segment.clusters Gem.Segment.split_runes Gem.Break.split
  Base.Utf8.decode Base.Utf8.encode Base.Utf8.valid_utf8
  Model.Hist.run_hist Model.Hist.observe Model.Hist.run_op
  Model.Options.with_defaults Model.Util.range_to_indexes
  Model.Manip.is_space
  Z.of_nat Z.to_nat Z.add Z.sub Z.mul Z.opp Z.eqb Z.ltb Z.leb Z.div Z.modulo Z.abs Pos.succ.
