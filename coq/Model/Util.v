(* internal/util/util.go *)
From Coq Require Import ZArith.
Open Scope Z_scope.

Definition range_to_indexes (size start end_ : Z) : Z * Z :=
  let start := if start <? 0 then (if start + size <? 0 then 0 else start + size) else start in
  let end_ := if end_ <? 0 then (if end_ + size <? 0 then 0 else end_ + size) else end_ in
  let end_ := if size <? end_ then size else end_ in
  let start := if size <? start then size else start in
  let end_ := if end_ <? start then start else end_ in
  (start, end_).

(* Go's int *)
Definition min_int : Z := - 9223372036854775808.
Definition max_int : Z := 9223372036854775807.
Definition go_End : Z := min_int.
Definition in_int (z : Z) : bool := (min_int <=? z) && (z <=? max_int).
