(* internal/manip/table.go *)
From Coq Require Import List Bool ZArith Lia.
Import ListNotations.
From Rosed Require Import Base.Res Base.ListX Base.Str Gem.Segment Gem.GString Model.Tb Model.Manip.
Open Scope Z_scope.

(* strings.ToUpper maps unicode.ToUpper over the code points; the mapping is an
   oracle (a table dumped from the Go runtime, see Inst/Go.v) *)
Class Upper := { upper : Z -> Z }.

Section Table.
Context `{Classifier} `{Upper}.

Record charset := { cs_corner : gstr; cs_vert : gstr; cs_horz : gstr }.

Definition default_charset_runes : gstr := [43; 124; 45].   (* "+|-" *)

Definition parse_table_charset (cs : gstr) : charset :=
  let cs :=
    if glen cs <? 3 then gadd cs (gsub default_charset_runes 0 (3 - glen cs))
    else if 3 <? glen cs then gsub cs 0 3 else cs in
  {| cs_corner := gsub cs 0 1; cs_vert := gsub cs 1 2; cs_horz := gsub cs 2 3 |}.

Definition cell_at (row : list gstr) (col : nat) : gstr :=
  match nth_error row col with Some c => c | None => [] end.

Definition col_content_width (data : list (list gstr)) (col : nat) : Z :=
  fold_left (fun acc row => let l := glen (cell_at row col) in if acc <=? l then l else acc) data 0.

Fixpoint add_space (ws : list Z) (i : Z) (n per rem : Z) : list Z :=
  match ws with
  | [] => []
  | w :: ws' => (if i <? n then w + per + (if i <? rem then 1 else 0) else w) :: add_space ws' (i + 1) n per rem
  end.

Fixpoint horz_bar (corner horz : gstr) (ws : list Z) : gstr :=
  match ws with
  | [] => []
  | w :: ws' => grepeat horz w ++ corner ++ horz_bar corner horz ws'
  end.

Definition upper_str (s : gstr) : gstr := map upper s.

Fixpoint build_row (cs : charset) (row : list gstr) (ws : list Z) (col : nat) (is_header border : bool) : gstr :=
  match ws with
  | [] => []
  | w :: ws' =>
      let cellData := cell_at row col in
      let content :=
        if is_header then
          let h := upper_str cellData in
          if border then gadd (align_center h w) (cs_vert cs) else align_left h w
        else
          if border then gadd (gadd [SP] (align_left cellData (w - 1))) (cs_vert cs) else align_left cellData w in
      content ++ build_row cs row ws' (S col) is_header border
  end.

Fixpoint build_rows (cs : charset) (data : list (list gstr)) (ws : list Z) (first header border multi : bool)
         (hbar nbbar : gstr) : list gstr :=
  match data with
  | [] => []
  | row :: data' =>
      let line := (if border then cs_vert cs else []) ++ build_row cs row ws 0 (first && header) border in
      let after := if first && header then (if border then (if multi then [hbar] else []) else [nbbar]) else [] in
      line :: after ++ build_rows cs data' ws false header border multi hbar nbbar
  end.

Definition build_table (data : list (list gstr)) (ws : list Z) (width : Z) (sep : gstr)
           (header border : bool) (cs : charset) : block :=
  let hbar := if border then cs_corner cs ++ horz_bar (cs_corner cs) (cs_horz cs) ws else [] in
  let nbbar := if header && negb border then grepeat (cs_horz cs) width else [] in
  let multi := 1 <? zlen data in
  let rows := build_rows cs data ws true header border multi hbar nbbar in
  let lines := (if border then [hbar] else []) ++ rows ++ (if border then [hbar] else []) in
  {| b_lines := lines; b_sep := sep; b_trailing := false |}.

Definition make_table (data : list (list gstr)) (width : Z) (sep : gstr) (header border : bool) (charSet : gstr)
  : block :=
  match data with
  | [] => tb_new [] sep
  | _ =>
      let colCount := fold_left (fun acc row => Nat.max acc (length row)) data O in
      match colCount with
      | O => tb_new [] sep
      | _ =>
          let cs := parse_table_charset charSet in
          let content := map (col_content_width data) (seq 0 colCount) in
          let hl := glen (cs_horz cs) in
          let padded := map (fun p : nat * Z =>
                               let '(i, w) := p in
                               w + (if border then 2 else if Nat.ltb (S i) colCount then 2 else 0))
                            (combine (seq 0 colCount) content) in
          let minw := (if border then hl else 0) + sumZ padded + (if border then hl * Z.of_nat colCount else 0) in
          let spaceToAdd := width - minw in
          if 0 <? spaceToAdd then
            let n := if negb border && Nat.ltb 1 colCount then Z.of_nat colCount - 1 else Z.of_nat colCount in
            let per := spaceToAdd / n in
            let rem := spaceToAdd mod n in
            build_table data (add_space padded 0 n per rem) width sep header border cs
          else build_table data padded minw sep header border cs
      end
  end.

End Table.
