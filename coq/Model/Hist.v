(* Operation histories over a growing pool of Editors: the executable entry
   point that the extracted driver runs against the Go implementation. *)
From Coq Require Import List Bool ZArith Lia.
Import ListNotations.
From Rosed Require Import Base.Res Base.ListX Base.Utf8 Base.Str Gem.Segment Gem.GString
     Model.Util Model.Tb Model.Manip Model.Table Model.Options Model.Editor Model.Ops.
Open Scope Z_scope.

(* decimal rendering of a non-negative integer, as strconv.Itoa *)
Fixpoint itoa_aux (fuel : nat) (n : Z) (acc : list Z) : list Z :=
  match fuel with
  | O => acc
  | S f => let acc := (48 + n mod 10) :: acc in if n <? 10 then acc else itoa_aux f (n / 10) acc
  end.
Definition itoa (n : Z) : list Z := if n <? 0 then 45 :: itoa_aux 20 (- n) [] else itoa_aux 20 n [].

(* fixed families of callbacks; their outputs reveal the arguments they were given *)
Definition line_cb (k : Z) : line_op := fun idx line =>
  if k =? 0 then Ok [line]
  else if k =? 1 then Ok []
  else if k =? 2 then Ok [line; line]
  else if k =? 3 then Ok [itoa idx ++ [58] ++ line]
  else if k =? 4 then Ok [[97]; line; []]
  else if k =? 5 then (if idx mod 2 =? 1 then Ok [] else Ok [line])
  else Ok [line].

Definition para_cb (k : Z) : para_op := fun idx para pre suf =>
  if k =? 0 then Ok [para]
  else if k =? 1 then Ok [[91] ++ itoa idx ++ [59] ++ para ++ [59] ++ pre ++ [59] ++ suf ++ [93]]
  else if k =? 2 then Ok []
  else if k =? 3 then Ok [para; para]
  else if k =? 5 then (if idx mod 2 =? 1 then Ok [] else Ok [para])
  else Ok [para].

Inductive op :=
| OChars (s e : Z) | OCharsFrom (s : Z) | OCharsTo (e : Z)
| OLines (s e : Z) | OLinesFrom (s : Z) | OLinesTo (e : Z)
| OCommit | OCommitAll
| OWithOptions (o : options)
| OInsert (pos : Z) (text : list Z) | ODelete (s e : Z) | OOvertype (pos : Z) (text : list Z)
| OWrap (w : Z) (o : option options)
| OJustify (w : Z) (o : option options)
| OAlign (a w : Z) (o : option options)
| OCollapse (o : option options)
| OIndent (level : Z) (o : option options)
| OApply (cb : Z) (o : option options)
| OApplyParas (cb : Z) (o : option options)
| OTwoCols (pos : Z) (l r : list Z) (gap width m ex : Z) (o : option options)
| ODefTable (pos : Z) (defs : list (list Z * list Z)) (width : Z) (o : option options)
| OTable (pos : Z) (data : list (list (list Z))) (width : Z) (o : option options).

Section Hist.
Context `{Classifier} `{Upper}.

Definition opts_or (e : editor) (o : option options) : options :=
  match o with Some o => o | None => e_opts e end.

Definition run_op (e : editor) (o : op) : Res editor :=
  match o with
  | OChars s en => chars e s en
  | OCharsFrom s => chars_from e s
  | OCharsTo en => chars_to e en
  | OLines s en => ed_lines_sel e s en
  | OLinesFrom s => lines_from e s
  | OLinesTo en => lines_to e en
  | OCommit => commit e
  | OCommitAll => commit_all e
  | OWithOptions o => Ok (with_options e o)
  | OInsert pos t => insert pos t e
  | ODelete s en => delete s en e
  | OOvertype pos t => overtype pos t e
  | OWrap w o => wrap_opts w (opts_or e o) e
  | OJustify w o => justify_opts w (opts_or e o) e
  | OAlign a w o => align_opts a w (opts_or e o) e
  | OCollapse o => collapse_space_opts (opts_or e o) e
  | OIndent l o => indent_opts l (opts_or e o) e
  | OApply cb o => apply_opts (line_cb cb) (opts_or e o) e
  | OApplyParas cb o => apply_paragraphs_opts (para_cb cb) (opts_or e o) e
  | OTwoCols pos l r gap width m ex o => insert_two_columns_opts pos l r gap width m ex (opts_or e o) e
  | ODefTable pos defs width o => insert_definitions_table_opts pos defs width (opts_or e o) e
  | OTable pos data width o => insert_table_opts pos data width (opts_or e o) e
  end.

(* what the harness observes of an Editor *)
Record obs := {
  ob_text : list Z; ob_opts : options; ob_sub : bool; ob_start : Z; ob_end : Z;
  ob_string : Res (list Z); ob_chars : Z; ob_lines : Z
}.

Definition observe (e : editor) : obs :=
  {| ob_text := e_text e; ob_opts := e_opts e;
     ob_sub := is_sub_editor e;
     ob_start := match e_ref e with Some (_, s, _) => s | None => 0 end;
     ob_end := match e_ref e with Some (_, _, en) => en | None => 0 end;
     ob_string := ed_string e; ob_chars := char_count e; ob_lines := line_count e |}.

(* a history step applies an operation to a pool entry and appends the result;
   a panicking step appends its receiver so that later indexes stay aligned *)
Fixpoint run_hist (pool : list editor) (steps : list (nat * op)) : list (Res editor) :=
  match steps with
  | [] => []
  | (i, o) :: rest =>
      match nth_error pool i with
      | None => [Panic P_index]
      | Some e =>
          let r := run_op e o in
          r :: run_hist (pool ++ [match r with Ok e' => e' | _ => e end]) rest
      end
  end.

End Hist.
