(* options.go *)
From Coq Require Import List Bool ZArith Lia.
Import ListNotations.
From Rosed Require Import Base.Res Base.ListX Base.Utf8 Gem.Segment Gem.GString.
Open Scope Z_scope.

(* all strings are byte lists *)
Record options := {
  o_indent : list Z;
  o_linesep : list Z;
  o_notrailing : bool;
  o_parasep : list Z;
  o_preserve : bool;
  o_justlast : bool;
  o_borders : bool;
  o_headers : bool;
  o_charset : list Z;
}.

Definition zero_options : options :=
  {| o_indent := []; o_linesep := []; o_notrailing := false; o_parasep := []; o_preserve := false;
     o_justlast := false; o_borders := false; o_headers := false; o_charset := [] |}.

Definition default_indent : list Z := [9].
Definition default_linesep : list Z := [10].
Definition default_parasep : list Z := [10; 10].
Definition default_charset : list Z := [43; 124; 45].

Section Opt.
Context `{Classifier}.

Definition with_defaults (o : options) : options :=
  let ls := match o_linesep o with [] => default_linesep | x => x end in
  let ind := match o_indent o with [] => default_indent | x => x end in
  let ps := match o_parasep o with [] => default_parasep | x => x end in
  let cs := decode (o_charset o) in
  let dcs := decode default_charset in
  let cs' :=
    if glen cs =? glen dcs then o_charset o
    else if glen cs <? glen dcs then
      let need := glen dcs - glen cs in
      let e := glen dcs in
      encode (gadd cs (gsub dcs (e - need) e))
    else encode (gsub cs 0 (glen dcs)) in
  {| o_indent := ind; o_linesep := ls; o_notrailing := o_notrailing o; o_parasep := ps;
     o_preserve := o_preserve o; o_justlast := o_justlast o; o_borders := o_borders o;
     o_headers := o_headers o; o_charset := cs' |}.

End Opt.

Definition options_eqb (a b : options) : bool :=
  zlist_eqb (o_indent a) (o_indent b) && zlist_eqb (o_linesep a) (o_linesep b)
  && Bool.eqb (o_notrailing a) (o_notrailing b) && zlist_eqb (o_parasep a) (o_parasep b)
  && Bool.eqb (o_preserve a) (o_preserve b) && Bool.eqb (o_justlast a) (o_justlast b)
  && Bool.eqb (o_borders a) (o_borders b) && Bool.eqb (o_headers a) (o_headers b)
  && zlist_eqb (o_charset a) (o_charset b).
