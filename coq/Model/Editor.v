(* editor.go, subeditor.go: Editor values, selection and commit. Text is a byte
   list; a sub-editor holds a copy of its parent and byte offsets into it. *)
From Coq Require Import List Bool ZArith Lia.
Import ListNotations.
From Rosed Require Import Base.Res Base.ListX Base.Utf8 Base.Str Gem.Segment Gem.GString Model.Util Model.Options.
Open Scope Z_scope.

Inductive editor := Ed (text : list Z) (opts : options) (ref : option (editor * Z * Z)).

Definition e_text (e : editor) := let '(Ed t _ _) := e in t.
Definition e_opts (e : editor) := let '(Ed _ o _) := e in o.
Definition e_ref (e : editor) := let '(Ed _ _ r) := e in r.
Definition edit (t : list Z) : editor := Ed t zero_options None.
Definition with_text (e : editor) (t : list Z) : editor := Ed t (e_opts e) (e_ref e).
Definition with_options (e : editor) (o : options) : editor := Ed (e_text e) o (e_ref e).
Definition is_sub_editor (e : editor) : bool := match e_ref e with Some _ => true | None => false end.

Section Editor.
Context `{Classifier}.

Definition char_count (e : editor) : Z := glen (decode (e_text e)).

Definition lines_sep (e : editor) (sep : list Z) : list (list Z) :=
  let lines := split (e_text e) sep in
  match rev lines with
  | [] :: rest => if negb (o_notrailing (e_opts e)) then rev rest else lines
  | _ => lines
  end.

Definition ed_lines (e : editor) : list (list Z) := lines_sep e (o_linesep (with_defaults (e_opts e))).
Definition line_count (e : editor) : Z := zlen (ed_lines e).

Definition sub_ed (e : editor) (start end_ : Z) : Res editor :=
  do t <- zsub (e_text e) start end_;
  Ok (Ed t (e_opts e) (Some (e, start, end_))).

(* GraphemeIndexes: rune offsets at which each cluster starts *)
Fixpoint cluster_starts (i : Z) (cl : list (list Z)) : list Z :=
  match cl with [] => [] | c :: cl' => i :: cluster_starts (i + zlen c) cl' end.

(* the range-over-string loop of Chars *)
Fixpoint chars_loop (l : list (Z * Z)) (chIdx runeStart runeEnd textLen byteStart byteEnd : Z) : Z * Z :=
  match l with
  | [] => (byteStart, byteEnd)
  | (off, _) :: l' =>
      let chIdx := chIdx + 1 in
      let hitStart := chIdx =? runeStart in
      let byteStart := if hitStart then off else byteStart in
      if hitStart && (textLen <=? runeEnd) then (byteStart, byteEnd)
      else if chIdx =? runeEnd then (byteStart, off)
      else chars_loop l' chIdx runeStart runeEnd textLen byteStart byteEnd
  end.

Definition chars (e : editor) (start end_ : Z) : Res editor :=
  let text := e_text e in
  let starts := cluster_starts 0 (clusters (decode text)) in
  let n := zlen starts in
  let start := if start =? go_End then n else start in
  let end_ := if end_ =? go_End then n else end_ in
  let '(start, end_) := range_to_indexes n start end_ in
  if n <=? start then sub_ed e (zlen text) (zlen text) else
  do runeStart <- znth starts start;
  do runeEnd <- (if end_ <? n then znth starts end_ else Ok (zlen text));
  let '(bs, be) := chars_loop (range_str text) (-1) runeStart runeEnd (zlen text) (-1) (-1) in
  let be := if be =? -1 then zlen text else be in
  sub_ed e bs be.

Definition chars_from (e : editor) (start : Z) : Res editor := chars e start (zlen (e_text e)).
Definition chars_to (e : editor) (end_ : Z) : Res editor := chars e 0 end_.

Definition commit (e : editor) : Res editor :=
  match e_ref e with
  | None => Ok e
  | Some (p, s, en) =>
      do prefix <- zsub (e_text p) 0 s;
      do suffix <- zsub (e_text p) en (zlen (e_text p));
      Ok (Ed (prefix ++ e_text e ++ suffix) (e_opts p) (e_ref p))
  end.

Fixpoint splice_up (p : editor) (s en : Z) (text : list Z) : Res editor :=
  match p with
  | Ed ptext popts pref =>
      match zsub ptext 0 s, zsub ptext en (zlen ptext) with
      | Ok prefix, Ok suffix =>
          let full := prefix ++ text ++ suffix in
          match pref with
          | None => Ok (Ed full popts None)
          | Some (pp, s', en') => splice_up pp s' en' full
          end
      | Panic c, _ => Panic c
      | OutOfFuel, _ => OutOfFuel
      | _, Panic c => Panic c
      | _, OutOfFuel => OutOfFuel
      end
  end.
Definition commit_all (e : editor) : Res editor :=
  match e_ref e with
  | None => Ok e
  | Some (p, s, en) => splice_up p s en (e_text e)
  end.

Definition ed_string (e : editor) : Res (list Z) :=
  if is_sub_editor e then do c <- commit_all e; Ok (e_text c) else Ok (e_text e).

(* the two scanning loops of Lines *)
Fixpoint lines_scan (fuel : nat) (text sep : list Z) (lineIdx target pos : Z) : Res (option Z) :=
  match fuel with
  | O => OutOfFuel
  | S fuel' =>
      if lineIdx =? target then Ok (Some pos) else
      do rest <- zsub text pos (zlen text);
      match index rest sep with
      | None => Ok None
      | Some k => lines_scan fuel' text sep (lineIdx + 1) target (pos + k + zlen sep)
      end
  end.

Definition ed_lines_sel (e : editor) (start end_ : Z) : Res editor :=
  let text := e_text e in
  match text with
  | [] => sub_ed e 0 0
  | _ =>
      let lc := line_count e in
      let start := if start =? go_End then lc else start in
      let end_ := if end_ =? go_End then lc else end_ in
      let '(start, end_) := range_to_indexes lc start end_ in
      if lc <=? start then sub_ed e (zlen text) (zlen text) else
      let sep := o_linesep (with_defaults (e_opts e)) in
      let fuel := S (S (length text)) in
      do r1 <- lines_scan fuel text sep 0 start 0;
      match r1 with
      | None => sub_ed e (zlen text) (zlen text)
      | Some byteStart =>
          do r2 <- lines_scan fuel text sep start end_ byteStart;
          match r2 with
          | None => sub_ed e byteStart (zlen text)
          | Some byteEnd => sub_ed e byteStart byteEnd
          end
      end
  end.

Definition lines_from (e : editor) (start : Z) : Res editor := ed_lines_sel e start (line_count e).
Definition lines_to (e : editor) (end_ : Z) : Res editor := ed_lines_sel e 0 end_.

End Editor.
