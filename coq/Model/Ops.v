(* operations.go, rosed.go: the public operations of Editor. Written after the
   Go code statement by statement; callbacks are Gallina functions in Res so that
   a panic inside one propagates. *)
From Coq Require Import List Bool ZArith Lia.
Import ListNotations.
From Rosed Require Import Base.Res Base.ListX Base.Utf8 Base.Str Gem.Segment Gem.GString
     Model.Util Model.Tb Model.Manip Model.Table Model.Options Model.Editor.
Open Scope Z_scope.

Section Ops.
Context `{Classifier} `{Upper}.

Definition line_op := Z -> list Z -> Res (list (list Z)).           (* LineOperation *)
Definition gpara_op := Z -> gstr -> gstr -> gstr -> Res (list gstr). (* gParagraphOperation *)

Fixpoint apply_each (op : line_op) (i : Z) (lines : list (list Z)) : Res (list (list Z)) :=
  match lines with
  | [] => Ok []
  | l :: ls => do r <- op i l; do rest <- apply_each op (i + 1) ls; Ok (r ++ rest)
  end.

Definition apply_opts (op : line_op) (opts : options) (e : editor) : Res editor :=
  let opts := with_defaults opts in
  let lines := lines_sep (with_options e opts) (o_linesep opts) in
  do applied <- apply_each op 0 lines;
  let applied := if negb (o_notrailing opts) && has_suffix (e_text e) (o_linesep opts) then applied ++ [[]] else applied in
  Ok (with_text e (join (o_linesep opts) applied)).

(* applyGParagraphsOpts *)
Fixpoint paras_loop (op : gpara_op) (idx : Z) (paras : list (list Z)) (trim ambig : bool)
         (lineSep : list Z) (nextPrefix prevSuffix : gstr) : Res (list (list Z)) :=
  match paras with
  | [] => Ok []
  | para0 :: rest =>
      (* the previous iteration may have moved a leading line separator of this paragraph to its own tail *)
      let para := if trim then skipn (length lineSep) para0 else para0 in
      let pre := if idx =? 0 then [] else nextPrefix in
      let '(suf, para, trim') :=
        match rest with
        | [] => ([], para, false)
        | nxt :: _ =>
            if ambig && has_prefix nxt lineSep then (prevSuffix, para ++ lineSep, true)
            else (prevSuffix, para, false)
        end in
      do r <- op idx (decode para) pre suf;
      do more <- paras_loop op (idx + 1) rest trim' ambig lineSep nextPrefix prevSuffix;
      Ok (map encode r ++ more)
  end.

Definition apply_gparagraphs (op : gpara_op) (opts : options) (e : editor) : Res editor :=
  let opts := with_defaults opts in
  let paraSep := o_parasep opts in
  let lineSep := o_linesep opts in
  let ambig := zlist_eqb (paraSep ++ lineSep) (lineSep ++ paraSep) in
  let parts := split paraSep lineSep in
  let prevSuffix := decode (hd [] parts) in
  let nextPrefix := match parts with _ :: _ :: _ => decode (last parts []) | _ => [] end in
  let paragraphs := split (e_text e) paraSep in
  do transformed <- paras_loop op 0 paragraphs false ambig lineSep nextPrefix prevSuffix;
  Ok (with_text e (join paraSep transformed)).

Definition para_op := Z -> list Z -> list Z -> list Z -> Res (list (list Z)).   (* ParagraphOperation *)
Definition apply_paragraphs_opts (op : para_op) (opts : options) (e : editor) : Res editor :=
  apply_gparagraphs (fun idx para pre suf =>
                       do r <- op idx (encode para) (encode pre) (encode suf); Ok (map decode r)) opts e.

(* ---- Align ---- *)
Definition A_None : Z := 0.  Definition A_Left : Z := 1.  Definition A_Right : Z := 2.  Definition A_Center : Z := 3.

Definition align_line (align : Z) (line : gstr) (width : Z) : gstr :=
  if align =? A_Left then align_left line width
  else if align =? A_Right then align_right line width
  else align_center line width.

Definition align_para (align width : Z) (lineSep : gstr) (idx : Z) (para pre suf : gstr) : Res (list gstr) :=
  let sepStart := spaces (glen pre) in
  let sepEnd := spaces (glen suf) in
  let one := fun (_ : Z) (line : gstr) => Ok [align_line align line width] in
  if align =? A_Left then
    let bl := tb_new (gadd para sepEnd) lineSep in
    if tb_len bl =? 0 then Ok [para] else
    let endIdx := tb_len bl - 1 in
    do l0 <- tb_line bl 0;
    do bl <- tb_set bl 0 (gadd l0 sepStart);
    do bl <- tb_apply one bl;
    do bl <- (if 0 <? glen sepStart then do l0 <- tb_line bl 0; tb_set bl 0 (gsub l0 0 (- glen sepStart)) else Ok bl);
    do bl <- (if 0 <? glen sepEnd then do le <- tb_line bl endIdx; tb_set bl endIdx (gsub le 0 (- glen sepEnd)) else Ok bl);
    Ok [tb_join bl]
  else if align =? A_Right then
    let bl := tb_new (gadd sepStart para) lineSep in
    if tb_len bl =? 0 then Ok [para] else
    let endIdx := tb_len bl - 1 in
    do le <- tb_line bl endIdx;
    do bl <- tb_set bl endIdx (gadd sepEnd le);
    do bl <- tb_apply one bl;
    do bl <- (if 0 <? glen sepStart then do l0 <- tb_line bl 0; tb_set bl 0 (gsub l0 (glen sepStart) (glen l0)) else Ok bl);
    do bl <- (if 0 <? glen sepEnd then do le <- tb_line bl endIdx; tb_set bl endIdx (gsub le (glen sepEnd) (glen le)) else Ok bl);
    Ok [tb_join bl]
  else
    let bl := tb_new para lineSep in
    if tb_len bl =? 0 then Ok [para] else
    do bl <- tb_apply one bl;
    do bl <- (if 0 <? glen sepStart then
                do firstLine <- tb_line bl 0;
                let leftSpace := count_leading_ws firstLine in
                let firstLine :=
                  if glen sepStart <=? leftSpace then gsub firstLine (glen sepStart) (glen firstLine)
                  else
                    let rightSpace := count_trailing_ws firstLine in
                    let rm := glen sepStart - leftSpace in
                    let rm := if rightSpace <? rm then rightSpace else rm in
                    gsub firstLine leftSpace (glen firstLine - rm) in
                tb_set bl 0 firstLine
              else Ok bl);
    do bl <- (if 0 <? glen sepEnd then
                do lastLine <- tb_line bl (tb_len bl - 1);
                let rightSpace := count_trailing_ws lastLine in
                let lastLine :=
                  if glen sepEnd <=? rightSpace then gsub lastLine 0 (- glen sepEnd)
                  else
                    let leftSpace := count_leading_ws lastLine in
                    let rm := glen sepEnd - rightSpace in
                    let rm := if leftSpace <? rm then leftSpace else rm in
                    gsub lastLine rm (glen lastLine - rightSpace) in
                tb_set bl (tb_len bl - 1) lastLine
              else Ok bl);
    Ok [tb_join bl].

Definition align_opts (align width : Z) (opts : options) (e : editor) : Res editor :=
  if (align =? A_None) || (negb (align =? A_Left) && negb (align =? A_Right) && negb (align =? A_Center)) then Ok e else
  let opts := with_defaults opts in
  if o_preserve opts then apply_gparagraphs (align_para align width (decode (o_linesep opts))) opts e
  else apply_opts (fun _ line => Ok [encode (align_line align (decode line) width)]) opts e.

(* ---- CollapseSpace ---- *)
Definition collapse_space_opts (opts : options) (e : editor) : Res editor :=
  let opts := with_defaults opts in
  do t <- collapse_space (decode (e_text e)) (decode (o_linesep opts));
  Ok (with_text e (encode t)).

(* ---- Insert / Delete / Overtype ---- *)
Definition insert (pos : Z) (text : list Z) (e : editor) : Res editor :=
  do b <- chars_to e pos;
  do a <- chars_from e pos;
  Ok (with_text e (e_text b ++ text ++ e_text a)).

Definition delete (start end_ : Z) (e : editor) : Res editor :=
  do sel <- chars e start end_;
  match e_ref sel with
  | None => Panic P_index    (* nil dereference; cannot happen: chars always returns a sub-editor *)
  | Some (_, s, en) =>
      do before <- zsub (e_text e) 0 s;
      do after <- zsub (e_text e) en (zlen (e_text e));
      Ok (with_text e (before ++ after))
  end.

Definition overtype (pos : Z) (text : list Z) (e : editor) : Res editor :=
  let inbound := decode text in
  do b <- chars_to e pos;
  let npos := glen (decode (e_text b)) in
  do a <- chars_from e (npos + glen inbound);
  Ok (with_text e (e_text b ++ encode inbound ++ e_text a)).

(* ---- Indent ---- *)
Definition indent_opts (level : Z) (opts : options) (e : editor) : Res editor :=
  if level <? 1 then Ok e else
  do ind <- repeat_str (o_indent (with_defaults opts)) level;
  let doIndent : line_op := fun _ line => Ok [ind ++ line] in
  if o_preserve (with_defaults opts) then
    apply_paragraphs_opts (fun _ para _ _ =>
                             do r <- apply_opts doIndent opts (with_options (edit para) opts);
                             do s <- ed_string r; Ok [s]) opts e
  else apply_opts doIndent opts e.

(* ---- Wrap ---- *)
Definition strip_affixes (text sepStart sepEnd : gstr) : gstr :=
  if 0 <? glen sepEnd then gsub text (glen sepStart) (- glen sepEnd) else gsub text (glen sepStart) (glen text).

Definition PLACEHOLDER : Z := 65.  (* "A" *)

Definition wrap_opts (width : Z) (opts : options) (e : editor) : Res editor :=
  let opts := with_defaults opts in
  let width := if width <? 2 then 2 else width in
  let lineSep := decode (o_linesep opts) in
  if o_preserve opts then
    apply_gparagraphs (fun _ para pre suf =>
                         let sepStart := grepeat [PLACEHOLDER] (glen pre) in
                         let sepEnd := grepeat [PLACEHOLDER] (glen suf) in
                         do bl <- wrap (gadd (gadd sepStart para) sepEnd) width lineSep;
                         Ok [strip_affixes (tb_join bl) sepStart sepEnd]) opts e
  else
    do bl <- wrap (decode (e_text e)) width lineSep;
    let text := tb_join bl in
    let text := if has_suffix (e_text e) (o_linesep opts) then gadd text lineSep else text in
    Ok (with_text e (encode text)).

(* ---- Justify ---- *)
Definition justify_opts (width : Z) (opts : options) (e : editor) : Res editor :=
  let opts := with_defaults opts in
  let lineSep := decode (o_linesep opts) in
  if o_preserve opts then
    apply_gparagraphs (fun _ para pre suf =>
                         let sepStart := grepeat [PLACEHOLDER] (glen pre) in
                         let sepEnd := grepeat [PLACEHOLDER] (glen suf) in
                         let bl := tb_new (gadd (gadd sepStart para) sepEnd) lineSep in
                         let n := tb_len bl in
                         do bl <- tb_apply (fun idx line =>
                                              if negb (o_justlast opts) && (idx =? n - 1) then Ok [line]
                                              else do j <- justify_line line width; Ok [j]) bl;
                         Ok [strip_affixes (tb_join bl) sepStart sepEnd]) opts e
  else
    let just : line_op := fun _ line => do j <- justify_line (decode line) width; Ok [encode j] in
    if o_justlast opts then apply_opts just opts e
    else
      do sub <- lines_to (with_options e opts) (-1);
      do sub <- apply_opts just opts sub;
      do c <- commit sub;
      Ok (with_options c (e_opts e)).

(* ---- InsertTwoColumns ---- *)
(* int(float64(n) * pct) for pct = m * 2^ex given exactly; 0 <= n < 2^53, m >= 0.
   The exact product n*m*2^ex is rounded to nearest-even at 53 significant bits
   (one IEEE-754 multiplication), then truncated. *)
Definition round_half_even (num den : Z) : Z :=
  let q := num / den in let r := num mod den in
  if 2 * r <? den then q else if den <? 2 * r then q + 1 else if Z.even q then q else q + 1.

Definition fmul_trunc (n m ex : Z) : Z :=
  let p := n * m in
  if p =? 0 then 0 else
  let bits := Z.log2 p + 1 in
  let '(p, ex) := if 53 <? bits then (round_half_even p (2 ^ (bits - 53)), ex + (bits - 53)) else (p, ex) in
  if 0 <=? ex then p * 2 ^ ex else p / 2 ^ (- ex).

(* pct > 1.0 *)
Definition pct_gt_one (m ex : Z) : bool :=
  if m <=? 0 then false else if 0 <=? ex then 1 <? m * 2 ^ ex else 2 ^ (- ex) <? m.

Definition two_col_widths (width gap m ex : Z) : Z * Z * Z :=
  let width := if width <? gap + 4 then gap + 4 else width in
  let l := if m <=? 0 then 0 else if pct_gt_one m ex then width - gap else fmul_trunc (width - gap) m ex in
  let l := if l <? 2 then 2 else l in
  let l := if (width - gap) - 2 <? l then (width - gap) - 2 else l in
  (width, l, (width - gap) - l).

Definition insert_two_columns_opts (pos : Z) (leftText rightText : list Z) (gap width m ex : Z)
           (opts : options) (e : editor) : Res editor :=
  match leftText, rightText with
  | [], [] => Ok e
  | _, _ =>
      let '(width, lw, rw) := two_col_widths width gap m ex in
      if rw <? 2 then Panic P_rightcol else
      let opts := with_defaults opts in
      let lineSep := decode (o_linesep opts) in
      do lb <- wrap (decode leftText) lw lineSep;
      do rb <- wrap (decode rightText) rw lineSep;
      let maxl := maxZ 0 (map glen (b_lines lb)) in
      do cb <- combine_column_blocks lb rb (gap + (lw - maxl));
      let cb := {| b_lines := b_lines cb; b_sep := lineSep; b_trailing := negb (o_notrailing opts) |} in
      insert pos (encode (tb_join cb)) e
  end.

(* ---- InsertDefinitionsTable ---- *)
Fixpoint def_rows (defs : list (list Z * list Z)) (longest rightWidth : Z) (lineSep paraSep : gstr)
         (full : block) : Res block :=
  match defs with
  | [] => Ok full
  | (term, def) :: defs' =>
      let termr := decode term in
      do pad <- (if glen termr <? longest then repeat_str [SP] (longest - glen termr) else Ok []);
      let leftCol := {| b_lines := [[SP; SP] ++ termr ++ pad]; b_sep := []; b_trailing := false |} in
      do rightCol <- wrap (decode def) (rightWidth - 2) lineSep;
      let rightCol := if tb_len rightCol =? 0 then tb_append rightCol [] else rightCol in
      do rightCol <- tb_apply (fun idx line => Ok [(if idx =? 0 then [HYPHEN; SP] else [SP; SP]) ++ line]) rightCol;
      do combined <- combine_column_blocks leftCol rightCol 2;
      do fc <- (if (0 <? tb_len full) && (0 <? tb_len combined) then
                  let lastIdx := tb_len full - 1 in
                  do lastLine <- tb_line full lastIdx;
                  do c0 <- tb_line combined 0;
                  do full' <- tb_set full lastIdx (gadd (gadd lastLine paraSep) c0);
                  Ok (full', tb_remove combined 0)
                else Ok (full, combined));
      let '(full, combined) := fc in
      let full := if 0 <? tb_len combined then tb_with_lines full (b_lines full ++ b_lines combined) else full in
      def_rows defs' longest rightWidth lineSep paraSep full
  end.

Definition insert_definitions_table_opts (pos : Z) (defs : list (list Z * list Z)) (width : Z)
           (opts : options) (e : editor) : Res editor :=
  let opts := with_defaults opts in
  let longest := fold_left (fun acc d => let l := glen (decode (fst d)) in if acc <? l then l else acc) defs (-1) in
  let leftWidth := longest + 2 in
  let rightWidth := width - leftWidth - 2 in
  let lineSep := decode (o_linesep opts) in
  let full := {| b_lines := []; b_sep := lineSep; b_trailing := negb (o_notrailing opts) |} in
  do full <- def_rows defs longest rightWidth lineSep (decode (o_parasep opts)) full;
  if 0 <? tb_len full then insert pos (encode (tb_join full)) e else Ok e.

(* ---- InsertTable ---- *)
Definition insert_table_opts (pos : Z) (data : list (list (list Z))) (width : Z) (opts : options) (e : editor)
  : Res editor :=
  let opts := with_defaults opts in
  let gdata := map (map decode) data in
  let bl := make_table gdata width (decode (o_linesep opts)) (o_headers opts) (o_borders opts) (decode (o_charset opts)) in
  let table := encode (tb_join bl) in
  let table := match table with [] => table | _ => if negb (o_notrailing opts) then table ++ o_linesep opts else table end in
  insert pos table e.

End Ops.
