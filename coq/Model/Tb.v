(* internal/tb/tb.go: blocks of lines *)
From Coq Require Import List Bool ZArith Lia.
Import ListNotations.
From Rosed Require Import Base.Res Base.ListX Base.Str Gem.Segment Gem.GString.
Open Scope Z_scope.

Record block := { b_lines : list gstr; b_sep : gstr; b_trailing : bool }.

Definition empty_block : block := {| b_lines := []; b_sep := []; b_trailing := false |}.

Definition tb_new (text sep : gstr) : block :=
  match text with
  | [] => {| b_lines := []; b_sep := sep; b_trailing := false |}
  | _ =>
      let lines := split text sep in
      match rev lines with
      | [] :: ((_ :: _) as rest) => {| b_lines := rev rest; b_sep := sep; b_trailing := true |}
      | _ => {| b_lines := lines; b_sep := sep; b_trailing := false |}
      end
  end.

Definition tb_join (b : block) : gstr :=
  match b_lines b with
  | [] => if b_trailing b then b_sep b else []
  | _ => join (b_sep b) (b_lines b) ++ (if b_trailing b then b_sep b else [])
  end.

Definition tb_len (b : block) : Z := zlen (b_lines b).
Definition tb_line (b : block) (i : Z) : Res gstr := znth (b_lines b) i.
Definition tb_set (b : block) (i : Z) (v : gstr) : Res block :=
  do l <- zset (b_lines b) i v; Ok {| b_lines := l; b_sep := b_sep b; b_trailing := b_trailing b |}.
Definition tb_append (b : block) (v : gstr) : block :=
  {| b_lines := b_lines b ++ [v]; b_sep := b_sep b; b_trailing := b_trailing b |}.
Definition tb_with_lines (b : block) (l : list gstr) : block :=
  {| b_lines := l; b_sep := b_sep b; b_trailing := b_trailing b |}.

(* Apply: the transformation sees the zero-based index and the line *)
Fixpoint apply_lines (f : Z -> gstr -> Res (list gstr)) (i : Z) (l : list gstr) : Res (list gstr) :=
  match l with
  | [] => Ok []
  | x :: l' => do ys <- f i x; do rest <- apply_lines f (i + 1) l'; Ok (ys ++ rest)
  end.
Definition tb_apply (f : Z -> gstr -> Res (list gstr)) (b : block) : Res block :=
  do l <- apply_lines f 0 (b_lines b); Ok (tb_with_lines b l).

(* Remove(pos): no-op if out of range *)
Definition tb_remove (b : block) (pos : Z) : block :=
  if (0 <=? pos) && (pos <? tb_len b)
  then tb_with_lines b (firstn (Z.to_nat pos) (b_lines b) ++ skipn (S (Z.to_nat pos)) (b_lines b))
  else b.
