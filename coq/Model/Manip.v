(* internal/manip/manip.go *)
From Coq Require Import List Bool ZArith Lia.
Import ListNotations.
From Rosed Require Import Base.Res Base.ListX Base.Str Gem.Segment Gem.GString Model.Tb.
Open Scope Z_scope.

(* unicode.IsSpace *)
Definition is_space (r : Z) : bool :=
  (r =? 9) || (r =? 10) || (r =? 11) || (r =? 12) || (r =? 13) || (r =? 32) || (r =? 133) || (r =? 160)
  || (r =? 5760) || ((8192 <=? r) && (r <=? 8202)) || (r =? 8232) || (r =? 8233) || (r =? 8239)
  || (r =? 8287) || (r =? 12288).

Definition SP : Z := 32.
Definition HYPHEN : Z := 45.
Definition first_rune (c : list Z) : Z := hd 0 c.

Section Manip.
Context `{Classifier}.

(* the loop of CollapseSpace: the text is re-segmented after every replacement.
   (Len, CharAt and SetCharAt of one iteration all see the same text, so its
   cluster list is computed once per iteration.) *)
Fixpoint collapse_loop (fuel : nat) (i : Z) (text : gstr) : Res gstr :=
  match fuel with
  | O => OutOfFuel
  | S fuel' =>
      let cl := clusters text in
      if i <? zlen cl then
        do ch <- znth cl i;
        let text' := if is_space (first_rune ch)
                     then concat (firstn (Z.to_nat i) cl) ++ [SP] ++ concat (skipn (S (Z.to_nat i)) cl)
                     else text in
        collapse_loop fuel' (i + 1) text'
      else Ok text
  end.

Definition collapse_space (text sep : gstr) : Res gstr :=
  let text := if gis_empty sep then text else replace_all text sep [SP] in
  do text <- collapse_loop (S (length text)) 0 text;
  Ok (collapse_runs SP false text).

Fixpoint append_word (fuel : nat) (lines : list gstr) (curWord curLine : gstr) (width : Z)
  : Res (list gstr * gstr) :=
  match fuel with
  | O => OutOfFuel
  | S fuel' =>
      let lw := glen curWord in
      if 0 <? lw then
        let ll := glen curLine in
        let added := lw + (if ll =? 0 then 0 else 1) in
        if ll + added =? width then
          let curLine := if ll =? 0 then curLine else gadd curLine [SP] in
          let curLine := gadd curLine curWord in
          append_word fuel' (lines ++ [curLine]) [] [] width
        else if width <? ll + added then
          if ll =? 0 then
            let curLine := gadd curLine (gsub curWord 0 (width - 1)) in
            let curLine := gadd curLine [HYPHEN] in
            let curWord := gsub curWord (width - 1) lw in
            append_word fuel' (lines ++ [curLine]) curWord [] width
          else append_word fuel' (lines ++ [curLine]) curWord [] width
        else
          let curLine := if ll =? 0 then curLine else gadd curLine [SP] in
          append_word fuel' lines [] (gadd curLine curWord) width
      else Ok (lines, curLine)
  end.

Definition append_word_to_wrapped_line (lines : list gstr) (curWord curLine : gstr) (width : Z) :=
  if width <? 2 then Panic P_wrapwidth
  else append_word (2 * length curWord + 3) lines curWord curLine width.

Fixpoint wrap_loop (cl : list (list Z)) (lines : list gstr) (curWord curLine : gstr) (width : Z)
  : Res (list gstr * gstr * gstr) :=
  match cl with
  | [] => Ok (lines, curWord, curLine)
  | ch :: cl' =>
      if first_rune ch =? SP then
        do (lines, curLine) <- append_word_to_wrapped_line lines curWord curLine width;
        wrap_loop cl' lines [] curLine width
      else wrap_loop cl' lines (gadd curWord ch) curLine width
  end.

Definition wrap (text : gstr) (width : Z) (sep : gstr) : Res block :=
  let width := if width <? 2 then 2 else width in
  do text <- collapse_space text sep;
  match text with
  | [] => Ok {| b_lines := [[]]; b_sep := sep; b_trailing := false |}
  | _ =>
      do (lines, curWord, curLine) <- wrap_loop (clusters text) [] [] [] width;
      do (lines, curLine) <- (if gis_empty curWord then Ok (lines, curLine)
                               else append_word_to_wrapped_line lines curWord curLine width);
      let lines := if gis_empty curLine then lines else lines ++ [curLine] in
      Ok {| b_lines := lines; b_sep := sep; b_trailing := false |}
  end.

(* JustifyLine *)
Fixpoint intersperse_sp (ws : list gstr) : list gstr :=
  match ws with
  | [] => []
  | [w] => [w]
  | w :: ws' => w :: [SP] :: intersperse_sp ws'
  end.

Fixpoint justify_loop (n : nat) (full : list gstr) (numGaps oddSub spaceIdx : Z) (fromRight : bool)
  : Res (list gstr) :=
  match n with
  | O => Ok full
  | S n' =>
      let idx := if fromRight then ((numGaps - oddSub) - spaceIdx) * 2 + 1 else spaceIdx * 2 + 1 in
      do w <- znth full idx;
      do full' <- zset full idx (gadd w [SP]);
      let spaceIdx' := if numGaps <=? spaceIdx + 1 then 0 else spaceIdx + 1 in
      justify_loop n' full' numGaps oddSub spaceIdx' (negb fromRight)
  end.

Definition justify_line (text : gstr) (width : Z) : Res gstr :=
  do text <- collapse_space text [10];
  if width <=? glen text then Ok text else
  let words := split text [SP] in
  let numGaps := zlen words - 1 in
  if numGaps <? 1 then Ok text else
  let full := intersperse_sp words in
  let spacesToAdd := width - glen text in
  let oddSub := if numGaps mod 2 =? 0 then 0 else 1 in
  do full <- justify_loop (Z.to_nat spacesToAdd) full numGaps oddSub 0 false;
  Ok (concat full).

(* alignment *)
Definition not_space_cluster (gc : list Z) : bool := negb (is_space (first_rune gc)).

Definition count_leading_ws (text : gstr) : Z :=
  let fi := gindex_func not_space_cluster text in
  if fi =? -1 then glen text else fi.

Definition count_trailing_ws (text : gstr) : Z :=
  let li := glast_index_func not_space_cluster text in
  glen text - li - 1.

Definition spaces (n : Z) : gstr := grepeat [SP] n.

Definition align_left (text : gstr) (width : Z) : gstr :=
  let ss := count_leading_ws text in
  let ending := if 0 <? ss then gsub text ss (glen text) else text in
  let extra := width - glen ending in
  let spaceLen := if 0 <? extra then extra else 0 in
  gadd ending (spaces spaceLen).

Definition align_right (text : gstr) (width : Z) : gstr :=
  let es := count_trailing_ws text in
  let starting := if 0 <? es then gsub text 0 (- es) else text in
  let extra := width - glen starting in
  let spaceLen := if 0 <? extra then extra else 0 in
  gadd (spaces spaceLen) starting.

Definition align_center (text : gstr) (width : Z) : gstr :=
  let ss := count_leading_ws text in
  let es := count_trailing_ws text in
  let mid := if 0 <? es then gsub text ss (- es) else gsub text ss (glen text) in
  let need := width - glen mid in
  if need <=? 0 then mid else
  let r := need / 2 in
  let l := need - r in
  gadd (gadd (spaces l) mid) (spaces r).

(* CombineColumnBlocks *)
Fixpoint combine_rows (n : nat) (i : Z) (left right : list gstr) (total : Z) : Res (list gstr) :=
  match n with
  | O => Ok []
  | S n' =>
      let l := match nth_error left (Z.to_nat i) with Some x => x | None => [] end in
      let r := match nth_error right (Z.to_nat i) with Some x => x | None => [] end in
      do mid <- repeat_str [SP] (total - glen l);
      do rest <- combine_rows n' (i + 1) left right total;
      Ok ((l ++ mid ++ r) :: rest)
  end.

Definition combine_column_blocks (left right : block) (minSpace : Z) : Res block :=
  match b_lines left, b_lines right with
  | [], [] => Ok empty_block
  | _, _ =>
      let n := Nat.max (length (b_lines left)) (length (b_lines right)) in
      let maxw := maxZ 0 (map glen (b_lines left)) in
      do rows <- combine_rows n 0 (b_lines left) (b_lines right) (maxw + minSpace);
      Ok {| b_lines := rows; b_sep := []; b_trailing := false |}
  end.

End Manip.
