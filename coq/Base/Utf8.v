(* Go's UTF-8 conversions: []rune(s) / range-over-string (decode, with U+FFFD for
   every ill-formed byte) and string([]rune) (encode, with U+FFFD for values that
   are not Unicode scalar values). Bytes and code points are both Z. *)
From Coq Require Import List ZArith Lia Bool.
Import ListNotations.
Open Scope Z_scope.

Definition rune_error : Z := 65533.

Definition scalar (r : Z) : bool :=
  ((0 <=? r) && (r <? 55296)) || ((57343 <? r) && (r <=? 1114111)).

Definition encode_rune (r : Z) : list Z :=
  let r := if scalar r then r else rune_error in
  if r <? 128 then [r]
  else if r <? 2048 then [192 + r / 64; 128 + r mod 64]
  else if r <? 65536 then [224 + r / 4096; 128 + (r / 64) mod 64; 128 + r mod 64]
  else [240 + r / 262144; 128 + (r / 4096) mod 64; 128 + (r / 64) mod 64; 128 + r mod 64].

Definition encode (rs : list Z) : list Z := flat_map encode_rune rs.

Definition cont (b lo hi : Z) : bool := (lo <=? b) && (b <=? hi).

(* one decoding step: (rune, number of bytes consumed), as utf8.DecodeRune *)
Definition dec1 (bs : list Z) : Z * nat :=
  match bs with
  | [] => (rune_error, O)
  | b0 :: t =>
      if b0 <? 128 then (b0, 1%nat)
      else if (194 <=? b0) && (b0 <=? 223) then
        match t with
        | b1 :: _ => if cont b1 128 191 then ((b0 - 192) * 64 + (b1 - 128), 2%nat) else (rune_error, 1%nat)
        | _ => (rune_error, 1%nat)
        end
      else if (224 <=? b0) && (b0 <=? 239) then
        let lo := if b0 =? 224 then 160 else 128 in
        let hi := if b0 =? 237 then 159 else 191 in
        match t with
        | b1 :: b2 :: _ =>
            if cont b1 lo hi && cont b2 128 191
            then ((b0 - 224) * 4096 + (b1 - 128) * 64 + (b2 - 128), 3%nat) else (rune_error, 1%nat)
        | _ => (rune_error, 1%nat)
        end
      else if (240 <=? b0) && (b0 <=? 244) then
        let lo := if b0 =? 240 then 144 else 128 in
        let hi := if b0 =? 244 then 143 else 191 in
        match t with
        | b1 :: b2 :: b3 :: _ =>
            if cont b1 lo hi && cont b2 128 191 && cont b3 128 191
            then ((b0 - 240) * 262144 + (b1 - 128) * 4096 + (b2 - 128) * 64 + (b3 - 128), 4%nat)
            else (rune_error, 1%nat)
        | _ => (rune_error, 1%nat)
        end
      else (rune_error, 1%nat)
  end.

(* runes together with the byte offset at which each starts: range over a string *)
Fixpoint decode_from (fuel : nat) (off : Z) (bs : list Z) : list (Z * Z) :=
  match fuel with
  | O => []
  | S fuel' =>
      match bs with
      | [] => []
      | _ => let '(r, n) := dec1 bs in (off, r) :: decode_from fuel' (off + Z.of_nat n) (skipn n bs)
      end
  end.

Definition range_str (bs : list Z) : list (Z * Z) := decode_from (length bs) 0 bs.
Definition decode (bs : list Z) : list Z := map snd (range_str bs).

Definition valid_utf8 (bs : list Z) : bool :=
  let rs := decode bs in
  forallb scalar rs && (fix eqb (a b : list Z) := match a, b with [], [] => true | x :: a', y :: b' => (x =? y) && eqb a' b' | _, _ => false end) (encode rs) bs.
