(* The fifteen break classes used by the segmenter: the thirteen
   Grapheme_Cluster_Break values that UAX #29 rules mention, Extended_Pictographic,
   and Other. *)
From Coq Require Import List Bool.
Import ListNotations.

Inductive cls := CR | LF | Control | Extend | ZWJ | RI | Prepend | SpacingMark | L | V | T | LV | LVT | ExtPict | Other.

Definition cls_eqb (a b : cls) : bool :=
  match a, b with
  | CR,CR | LF,LF | Control,Control | Extend,Extend | ZWJ,ZWJ | RI,RI | Prepend,Prepend
  | SpacingMark,SpacingMark | L,L | V,V | T,T | LV,LV | LVT,LVT | ExtPict,ExtPict | Other,Other => true
  | _,_ => false
  end.

Lemma cls_eqb_eq a b : cls_eqb a b = true <-> a = b.
Proof. destruct a, b; cbn; split; congruence. Qed.

Lemma cls_eqb_refl a : cls_eqb a a = true.
Proof. destruct a; reflexivity. Qed.

Definition all_cls := [CR;LF;Control;Extend;ZWJ;RI;Prepend;SpacingMark;L;V;T;LV;LVT;ExtPict;Other].
Lemma all_cls_ok c : In c all_cls.
Proof. destruct c; cbn; tauto. Qed.

Notation "a =c b" := (cls_eqb a b) (at level 70).

Definition cls_eq_dec (a b : cls) : {a = b} + {a <> b}.
Proof. decide equality. Defined.
