(* Go's strings.Index / Split / Join / HasPrefix / HasSuffix / ReplaceAll /
   Repeat on lists of Z (used both for byte strings and for rune strings: on
   well-formed UTF-8 the two levels agree because UTF-8 is self-synchronising). *)
From Coq Require Import List ZArith Lia Bool.
Import ListNotations.
From Rosed Require Import Base.Res Base.ListX.
Open Scope Z_scope.

Fixpoint has_prefix (s p : list Z) : bool :=
  match p, s with
  | [], _ => true
  | y :: p', x :: s' => (x =? y) && has_prefix s' p'
  | _ :: _, [] => false
  end.

Definition has_suffix (s p : list Z) : bool := has_prefix (rev s) (rev p).

(* offset of the first occurrence of sep in s *)
Fixpoint index_from (i : Z) (s sep : list Z) : option Z :=
  if has_prefix s sep then Some i else
  match s with
  | [] => None
  | _ :: s' => index_from (i + 1) s' sep
  end.
Definition index (s sep : list Z) : option Z := index_from 0 s sep.

(* strings.Split for a non-empty separator: leftmost non-overlapping occurrences.
   [cur] is the current piece, reversed; [skip] counts separator elements still
   to be dropped. *)
Fixpoint split_aux (sepl : nat) (sep : list Z) (skip : nat) (cur : list Z) (s : list Z) : list (list Z) :=
  match skip with
  | S k => match s with
           | [] => [rev cur]
           | _ :: s' => split_aux sepl sep k cur s'
           end
  | O =>
      match s with
      | [] => [rev cur]
      | x :: s' =>
          if has_prefix s sep then rev cur :: split_aux sepl sep (sepl - 1) [] s'
          else split_aux sepl sep O (x :: cur) s'
      end
  end.

Definition split (s sep : list Z) : list (list Z) :=
  match sep with
  | [] => map (fun x => [x]) s   (* not reachable from the library: separators are defaulted *)
  | _ => split_aux (length sep) sep O [] s
  end.

Fixpoint join (sep : list Z) (l : list (list Z)) : list Z :=
  match l with
  | [] => []
  | [x] => x
  | x :: l' => x ++ sep ++ join sep l'
  end.

Definition replace_all (s old new : list Z) : list Z :=
  match old with
  | [] => s
  | _ => join new (split s old)
  end.

(* strings.Repeat *)
Definition repeat_str (s : list Z) (n : Z) : Res (list Z) :=
  if n <? 0 then Panic P_repeat else Ok (repeatn s (Z.to_nat n)).

(* regexp " +" -> " " *)
Fixpoint collapse_runs (c : Z) (prev : bool) (s : list Z) : list Z :=
  match s with
  | [] => []
  | x :: s' => if x =? c then (if prev then collapse_runs c true s' else x :: collapse_runs c true s')
               else x :: collapse_runs c false s'
  end.
