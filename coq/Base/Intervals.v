(* Finite unions of closed integer intervals, and a proof principle for
   statements "forall r : Z, f r = g r" about functions that only ever compare
   r with finitely many constants: such functions are constant on the pieces
   cut out by those constants, so equality at one representative per piece
   (a finite check, done by vm_compute) gives equality everywhere. *)
From Coq Require Import ZArith List Bool Lia.
Import ListNotations.
Open Scope Z_scope.

Definition inr (r : Z) (l : list (Z*Z)) : bool :=
  existsb (fun p => (fst p <=? r) && (r <=? snd p)) l.

Lemma inr_spec r l : inr r l = true <-> exists lo hi, In (lo,hi) l /\ lo <= r <= hi.
Proof.
  unfold inr. rewrite existsb_exists. split.
  - intros ([lo hi] & Hin & H). apply andb_true_iff in H. cbn in H. exists lo, hi. split; [assumption|lia].
  - intros (lo & hi & Hin & H). exists (lo,hi). split; [assumption|]. cbn. apply andb_true_iff. lia.
Qed.

(* r and r' lie on the same side of every point of B *)
Definition same (B : list Z) (r r' : Z) : Prop := forall b, In b B -> (b <=? r) = (b <=? r').

Definition piecewise {A} (B : list Z) (f : Z -> A) : Prop := forall r r', same B r r' -> f r = f r'.

Definition bps_of (l : list (Z*Z)) : list Z := flat_map (fun p => [fst p; snd p + 1]) l.

Lemma bps_of_in l p : In p l -> In (fst p) (bps_of l) /\ In (snd p + 1) (bps_of l).
Proof.
  intro H. unfold bps_of. split; apply in_flat_map; exists p; cbn; auto.
Qed.

Lemma piecewise_inr B l : incl (bps_of l) B -> piecewise B (fun r => inr r l).
Proof.
  intros Hincl r r' Hs. unfold inr. induction l as [|p l IH]; [reflexivity|].
  cbn [existsb]. rewrite IH.
  - f_equal. destruct (bps_of_in (p :: l) p (or_introl eq_refl)) as [H1 H2].
    apply Hincl in H1. apply Hincl in H2. apply Hs in H1. apply Hs in H2.
    rewrite H1. f_equal.
    destruct (snd p + 1 <=? r) eqn:E1, (snd p + 1 <=? r') eqn:E2; try discriminate; lia.
  - intros b Hb. apply Hincl. cbn. right. right. exact Hb.
Qed.

Lemma piecewise_incl {A} B B' (f : Z -> A) : incl B B' -> piecewise B f -> piecewise B' f.
Proof. intros Hi Hp r r' Hs. apply Hp. intros b Hb. apply Hs, Hi, Hb. Qed.

Lemma piecewise_map {A} B (fs : list (Z -> A)) :
  Forall (piecewise B) fs -> piecewise B (fun r => map (fun f => f r) fs).
Proof.
  intros H r r' Hs. induction H as [|f fs Hf _ IH]; [reflexivity|]. cbn. f_equal; auto.
Qed.

Lemma piecewise_comp {A C} B (f : Z -> A) (g : A -> C) : piecewise B f -> piecewise B (fun r => g (f r)).
Proof. intros H r r' Hs. f_equal. auto. Qed.

Lemma piecewise_pair {A C} B (f : Z -> A) (g : Z -> C) : piecewise B f -> piecewise B g -> piecewise B (fun r => (f r, g r)).
Proof. intros Hf Hg r r' Hs. f_equal; auto. Qed.

(* representatives *)
Definition lowest (B : list Z) : Z := fold_right Z.min 0 B.
Lemma lowest_le B b : In b B -> lowest B <= b.
Proof. induction B as [|x B IH]; cbn; [tauto|]. intros [->|H]; [lia|]. specialize (IH H). unfold lowest in IH. lia. Qed.
Definition reps (B : list Z) : list Z := (lowest B - 1) :: B.

Fixpoint best_below (B : list Z) (r : Z) (acc : option Z) : option Z :=
  match B with
  | [] => acc
  | b :: B' =>
      if b <=? r then
        best_below B' r (match acc with Some a => if a <=? b then Some b else Some a | None => Some b end)
      else best_below B' r acc
  end.

Lemma best_below_spec B r acc :
  (match acc with Some a => a <= r | None => True end) ->
  match best_below B r acc with
  | Some q => q <= r /\ (forall b, In b B -> b <= r -> b <= q) /\ (match acc with Some a => a <= q | None => True end)
               /\ (In q B \/ acc = Some q)
  | None => acc = None /\ forall b, In b B -> r < b
  end.
Proof.
  revert acc; induction B as [|b B IH]; intros acc Hacc; cbn [best_below].
  - destruct acc as [a|]; [|split; [reflexivity|intros b []]].
    repeat split; try lia; try tauto. intros b [].
  - destruct (b <=? r) eqn:E.
    + apply Z.leb_le in E.
      set (acc' := match acc with Some a => if a <=? b then Some b else Some a | None => Some b end).
      assert (Hacc' : match acc' with Some a => a <= r | None => True end).
      { subst acc'. destruct acc as [a|]; [destruct (a <=? b)|]; assumption. }
      specialize (IH acc' Hacc'). destruct (best_below B r acc') as [q|].
      * destruct IH as (H1 & H2 & H3 & H4). split; [assumption|]. split; [|split].
        -- intros x [<-|Hx] Hxr; [|auto]. subst acc'. destruct acc as [a|]; [destruct (a <=? b) eqn:E2|]; lia.
        -- subst acc'. destruct acc as [a|]; [|trivial]. destruct (a <=? b) eqn:E2; lia.
        -- subst acc'. destruct H4 as [H4|H4]; [left; right; assumption|].
           destruct acc as [a|]; [destruct (a <=? b)|]; injection H4 as <-; cbn; auto.
      * destruct IH as [IH _]. subst acc'. destruct acc as [a|]; [destruct (a <=? b)|]; discriminate.
    + apply Z.leb_gt in E. specialize (IH acc Hacc). destruct (best_below B r acc) as [q|].
      * destruct IH as (H1 & H2 & H3 & H4). repeat split; try assumption.
        -- intros x [<-|Hx] Hxr; [lia|auto].
        -- destruct H4; [left; right; assumption|right; assumption].
      * destruct IH as [-> IH]. split; [reflexivity|]. intros x [<-|Hx]; [lia|auto].
Qed.

Lemma rep_exists B r : exists q, In q (reps B) /\ same B r q.
Proof.
  pose proof (best_below_spec B r None I) as H. destruct (best_below B r None) as [q|].
  - destruct H as (H1 & H2 & _ & [H4|H4]); [|discriminate]. exists q. split; [right; assumption|].
    intros b Hb. destruct (b <=? r) eqn:E.
    + apply Z.leb_le in E. symmetry. apply Z.leb_le. auto.
    + apply Z.leb_gt in E. symmetry. apply Z.leb_gt. lia.
  - destruct H as [_ H]. exists (lowest B - 1). split; [left; reflexivity|].
    intros b Hb. pose proof (H b Hb). pose proof (lowest_le B b Hb).
    destruct (b <=? r) eqn:E1; [apply Z.leb_le in E1; lia|]. symmetry. apply Z.leb_gt. lia.
Qed.

Theorem piecewise_forall {A} (eqb : A -> A -> bool) (eqb_ok : forall a b, eqb a b = true -> a = b)
        B (f g : Z -> A) :
  piecewise B f -> piecewise B g ->
  forallb (fun q => eqb (f q) (g q)) (reps B) = true ->
  forall r, f r = g r.
Proof.
  intros Hf Hg Hall r. destruct (rep_exists B r) as (q & Hq & Hs).
  rewrite (Hf _ _ Hs), (Hg _ _ Hs). rewrite forallb_forall in Hall. apply eqb_ok, Hall, Hq.
Qed.

Theorem piecewise_forall_true B (f : Z -> bool) :
  piecewise B f -> forallb f (reps B) = true -> forall r, f r = true.
Proof.
  intros Hf Hall r. destruct (rep_exists B r) as (q & Hq & Hs).
  rewrite (Hf _ _ Hs). rewrite forallb_forall in Hall. auto.
Qed.

(* decision trees over Z *)
Inductive tree (A : Type) := Leaf (a : A) | Node (k : Z) (l r : tree A).
Arguments Leaf {A}. Arguments Node {A}.
Fixpoint lookup {A} (t : tree A) (x : Z) : A :=
  match t with Leaf a => a | Node k l r => if x <? k then lookup l x else lookup r x end.
Fixpoint keys {A} (t : tree A) : list Z :=
  match t with Leaf _ => [] | Node k l r => k :: keys l ++ keys r end.

Lemma piecewise_lookup {A} B (t : tree A) : incl (keys t) B -> piecewise B (lookup t).
Proof.
  intros Hincl r r' Hs. induction t as [a|k l IHl rt IHr]; [reflexivity|]. cbn [lookup].
  assert (Hk : In k B) by (apply Hincl; left; reflexivity).
  apply Hs in Hk. rewrite IHl, IHr.
  - destruct (r <? k) eqn:E1, (r' <? k) eqn:E2; try reflexivity;
    destruct (k <=? r) eqn:E3, (k <=? r') eqn:E4; try discriminate; lia.
  - intros b Hb. apply Hincl. cbn. right. apply in_or_app. right. exact Hb.
  - intros b Hb. apply Hincl. cbn. right. apply in_or_app. left. exact Hb.
Qed.

(* balanced tree for f over sorted breakpoints bs; lo represents the piece below the first one *)
Fixpoint build {A} (fuel : nat) (f : Z -> A) (lo : Z) (bs : list Z) : tree A :=
  match fuel with
  | O => Leaf (f lo)
  | S fuel' =>
      match bs with
      | [] => Leaf (f lo)
      | _ => let n := Nat.div2 (length bs) in
             match skipn n bs with
             | [] => Leaf (f lo)
             | k :: rt => Node k (build fuel' f lo (firstn n bs)) (build fuel' f k rt)
             end
      end
  end.

(* boolean inclusion check for lists of Z *)
Definition zmem (x : Z) (l : list Z) : bool := existsb (Z.eqb x) l.
Lemma zmem_in x l : zmem x l = true -> In x l.
Proof. unfold zmem. rewrite existsb_exists. intros (y & H & E). apply Z.eqb_eq in E. subst. assumption. Qed.
Definition zincl (a b : list Z) : bool := forallb (fun x => zmem x b) a.
Lemma zincl_incl a b : zincl a b = true -> incl a b.
Proof. unfold zincl. rewrite forallb_forall. intros H x Hx. apply zmem_in, H, Hx. Qed.

(* sorting breakpoints (insertion sort with dedup; only used by computation) *)
Fixpoint zins (x : Z) (l : list Z) : list Z :=
  match l with
  | [] => [x]
  | y :: l' => if x <? y then x :: l else if x =? y then l else y :: zins x l'
  end.
Definition zsort (l : list Z) : list Z := fold_right zins [] l.
