(* List helpers with Z indices, as Go code indexes with int. *)
From Coq Require Import List ZArith Lia Bool.
Import ListNotations.
From Rosed Require Import Base.Res.
Open Scope Z_scope.

Definition zlen {A} (l : list A) : Z := Z.of_nat (length l).

Definition slice {A} (l : list A) (a b : nat) : list A := firstn (b - a) (skipn a l).
Definition zslice {A} (l : list A) (a b : Z) : list A := slice l (Z.to_nat a) (Z.to_nat b).

(* l[i], panicking like Go *)
Definition znth {A} (l : list A) (i : Z) : Res A :=
  if (i <? 0) then Panic P_index else
  match nth_error l (Z.to_nat i) with Some x => Ok x | None => Panic P_index end.

(* l[a:b], panicking like Go (a <= b <= len) *)
Definition zsub {A} (l : list A) (a b : Z) : Res (list A) :=
  if (a <? 0) || (b <? a) || (zlen l <? b) then Panic P_slice else Ok (zslice l a b).

(* l with l[i] := x, panicking like Go *)
Fixpoint set_nth {A} (l : list A) (i : nat) (x : A) : list A :=
  match l, i with
  | [], _ => []
  | _ :: l', O => x :: l'
  | y :: l', S i' => y :: set_nth l' i' x
  end.
Definition zset {A} (l : list A) (i : Z) (x : A) : Res (list A) :=
  if (i <? 0) || (zlen l <=? i) then Panic P_index else Ok (set_nth l (Z.to_nat i) x).

Definition repeatn {A} (l : list A) (n : nat) : list A := concat (repeat l n).

Fixpoint list_eqb {A} (eqb : A -> A -> bool) (a b : list A) : bool :=
  match a, b with
  | [], [] => true
  | x :: a', y :: b' => eqb x y && list_eqb eqb a' b'
  | _, _ => false
  end.
Definition zlist_eqb := list_eqb Z.eqb.

Lemma zlist_eqb_eq a b : zlist_eqb a b = true <-> a = b.
Proof.
  unfold zlist_eqb. revert b; induction a as [|x a IH]; intros [|y b]; cbn; try (split; congruence).
  rewrite andb_true_iff, Z.eqb_eq, IH. split; [intros [-> ->]; reflexivity|intro E; injection E; auto].
Qed.

Definition last_opt {A} (l : list A) : option A :=
  match rev l with [] => None | x :: _ => Some x end.

Fixpoint zseq_from (i : Z) (n : nat) : list Z :=
  match n with O => [] | S n' => i :: zseq_from (i + 1) n' end.

Fixpoint sumZ (l : list Z) : Z := match l with [] => 0 | x :: l' => x + sumZ l' end.
Fixpoint maxZ (d : Z) (l : list Z) : Z := match l with [] => d | x :: l' => maxZ (Z.max d x) l' end.
