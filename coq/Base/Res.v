(* Result monad for Go operations that can panic. Slice indexing out of range,
   strings.Repeat with a negative count and the explicit panics of the library
   are [Panic]; a fuelled loop that runs out of fuel is [OutOfFuel], so that
   totality (C18) is a theorem about the model rather than an artefact of
   totalising definitions. *)
From Coq Require Import List ZArith.
Import ListNotations.

Inductive Res (A : Type) : Type :=
| Ok (a : A)
| Panic (code : Z)
| OutOfFuel.
Arguments Ok {A}. Arguments Panic {A}. Arguments OutOfFuel {A}.

Definition bind {A B} (r : Res A) (f : A -> Res B) : Res B :=
  match r with Ok a => f a | Panic c => Panic c | OutOfFuel => OutOfFuel end.

Notation "'do' x <- e ; f" := (bind e (fun x => f)) (at level 200, x pattern, e at level 100, f at level 200, right associativity).

Definition is_ok {A} (r : Res A) : bool := match r with Ok _ => true | _ => false end.

Fixpoint mapM {A B} (f : A -> Res B) (l : list A) : Res (list B) :=
  match l with
  | [] => Ok []
  | x :: l' => do y <- f x; do ys <- mapM f l'; Ok (y :: ys)
  end.

(* panic codes (only for readability of replays) *)
Definition P_index : Z := 1.      (* index out of range *)
Definition P_slice : Z := 2.      (* slice bounds out of range *)
Definition P_repeat : Z := 3.     (* strings.Repeat: negative count *)
Definition P_setchar : Z := 4.    (* SetCharAt: empty replacement *)
Definition P_wrapwidth : Z := 5.  (* appendWordToWrappedLine: width < 2 *)
Definition P_rightcol : Z := 6.   (* InsertTwoColumns: right column too narrow *)
Definition P_divzero : Z := 7.    (* integer division by zero *)
